"""C20 — uid/euid change only as the master allows; without euid no object creation.

C20-a  who may write object_t.uid / .euid (all units): each store must be one of the
       allow-listed sites *and* satisfy the site's dominating condition.
C20-b  get_empty_object is called only from load_object / clone_object, and every
       path to it (and to compile_file / load_binary) passes the euid gate.
C20-c  give_uid_to_object consults the master's creator_file before any uid store
       once the mudlib is up; it is called only on freshly allocated objects."""
import facts
import cfgq
from facts import strip, show, const_val, walk, atom_of, normalize_cond

OBJ_REC = ("object_s", "object_t")


from core import rel  # noqa: E402


# locals of the function being looked at that only ever hold one global (object_t *loader = current_object): {local id: global}
CUR_ALIAS = {}


def aliases_of(f):
    out = {}
    for b, i, n in f.nodes():
        pairs = []
        if n.get("k") == "Asg" and n.get("op") == "=" and strip(n["L"]).get("k") == "Ref" and strip(n["L"]).get("d") == "local":
            pairs.append((strip(n["L"]).get("id"), n["R"]))
        elif n.get("k") == "Decl":
            pairs += [(v.get("id"), v["init"]) for v in n.get("vars", ()) if isinstance(v.get("init"), dict)]
        for vid, r in pairs:
            r0 = strip(r)
            val = r0.get("n") if r0.get("k") == "Ref" and r0.get("d") in ("global", "static") else False
            out[vid] = val if (vid not in out or out[vid] == val) else False
    return {k: v for k, v in out.items() if v}


def is_field(e, field, base_name=None):
    e = strip(e)
    if not (isinstance(e, dict) and e.get("k") == "Mem" and e.get("f") == field and e.get("rec") in OBJ_REC):
        return False
    if base_name is not None:
        b = strip(e["b"])
        return b.get("k") == "Ref" and (b.get("n") == base_name or (b.get("d") == "local" and CUR_ALIAS.get(b.get("id")) == base_name))
    return True


def base_name(e):
    b = strip(strip(e)["b"])
    return b.get("n") if b.get("k") == "Ref" else show(b)


def has_guard(f, bid, pred):
    """Some guard atom (cond, truth) holding at block bid satisfies pred(cond_stripped_of_not, truth)."""
    for c, truth, B in cfgq.guards(f, bid):
        e, t = normalize_cond(c, truth)
        if pred(strip(e), t):
            return True
    return False


def euid_nonnull_of(name):
    def pred(e, t):
        # e true  with e == X->euid  ;  (X->euid == 0) false ; (X->euid != 0) true
        if is_field(e, "euid", name):
            return t
        if e.get("k") == "Bin" and e.get("op") in ("==", "!="):
            if is_field(e["L"], "euid", name) and const_val(e["R"]) == 0:
                return (e["op"] == "!=") == t
            if is_field(e["R"], "euid", name) and const_val(e["L"]) == 0:
                return (e["op"] == "!=") == t
        return False
    return pred


def euid_null_of(name):
    def pred(e, t):
        if is_field(e, "euid", name):
            return not t
        if e.get("k") == "Bin" and e.get("op") in ("==", "!="):
            if is_field(e["L"], "euid", name) and const_val(e["R"]) == 0:
                return (e["op"] == "==") == t
        return False
    return pred


def check(run, prog, tier):
    run.rule("C20-a", "every store to object_t.uid/.euid is an allow-listed site and satisfies that site's dominating condition (master approval, euid non-zero, target's euid zero, NULL value)", 10)
    run.rule("C20-b", "get_empty_object only from load_object/clone_object; every path to object creation/compilation passes the euid gate (or a listed bypass: no current_object, master, pre-mudlib)", 4)
    run.rule("C20-c", "give_uid_to_object: creator_file apply dominates every uid store once the mudlib is up; reached only via init_object on a fresh object", 4)

    funcs = list(prog.functions())
    byname = prog.by_name()
    for nm in ("give_uid_to_object", "f_seteuid", "f_export_uid", "load_object", "clone_object", "get_empty_object"):   # init_object() is a trivial wrapper that may be inlined
        run.need(byname.get(nm), "function " + nm)

    # ---- C20-a enumerate writers
    stores = []  # (f, block, node, field)
    escapes = []
    for f in funcs:
        ord_ = {}
        for b, i, n in f.nodes():
            k = n.get("k")
            if k == "Asg":
                l = strip(n["L"])
                for fld in ("uid", "euid"):
                    if is_field(l, fld):
                        o = ord_.get(fld, 0)
                        ord_[fld] = o + 1
                        stores.append((f, b, n, fld, o))
            elif k == "Un" and n.get("op") in ("&", "++", "--"):
                for fld in ("uid", "euid"):
                    if is_field(n["e"], fld):
                        escapes.append((f, b, n, fld))
            elif k == "Call" and n.get("fn") in ("memcpy", "memmove", "memset", "__builtin_memcpy", "__builtin_memset", "bzero"):
                a0 = strip(n["args"][0]) if n.get("args") else {}
                t = a0.get("t", "")
                if "object_s" in t and t.rstrip().endswith("*") and "**" not in t:
                    tgt0 = strip(a0["e"]) if a0.get("k") == "Un" and a0.get("op") == "&" else None
                    if tgt0 is not None and tgt0.get("k") == "Ref" and tgt0.get("d") in ("local", "slocal"):
                        continue  # a C-local dummy object_t, not an LPC object
                    escapes.append((f, b, n, "object"))
            if k == "Asg" and "struct object_s" == (n.get("t") or ""):
                escapes.append((f, b, n, "object"))
        run.saw(f) if ord_ else None

    def site(f, n, fld, o):
        return "store:%s:%s:%s:%d" % (rel(f.file), f.name, fld, o)

    for f, b, n, fld, o in stores:
        CUR_ALIAS.clear()
        CUR_ALIAS.update(aliases_of(f))
        inst = site(f, n, fld, o)
        tgt = base_name(n["L"])
        rhs = strip(n["R"])
        ok, why = False, "store outside the allow-list: %s in %s" % (show(n), f.name)
        fn = f.name
        if fn == "give_uid_to_object":
            p0 = f.params[0]["n"] if f.params else None
            if tgt != p0:
                ok, why = False, "target %s is not the function's object parameter" % tgt
            elif fld == "euid":
                if const_val(rhs) == 0:
                    ok, why = True, "euid := NULL on a new object"
                elif is_field(rhs, "euid", "current_object") and has_guard(
                        f, b.id, lambda e, t: t is False and e.get("k") == "Call" and e.get("fn") == "strcmp" and "backbone_uid" in show(e)):
                    ok, why = True, "euid inherited from the loader on the backbone branch (strcmp(backbone_uid->name, creator) == 0)"
                else:
                    ok, why = False, "euid assigned %s outside the backbone branch" % show(rhs)
            else:
                ok, why = True, "uid store in give_uid_to_object (creator policy checked by C20-c)"
        elif fn == "set_master" or (tgt == "master_ob" and fn in ("set_master", "init_master")):
            ok = tgt == "master_ob"
            why = "master object's own uid/euid from get_root_uid" if ok else "set_master writes %s" % tgt
        elif fn == "f_seteuid" and fld == "euid":
            if tgt != "current_object":
                ok, why = False, "seteuid writes the euid of %s, not of the calling object" % tgt
            elif const_val(rhs) == 0:
                ok, why = True, "seteuid(0): euid := NULL on the calling object"
            else:
                ok, why = cfgq.approved_only(f, b.id, "APPLY_VALID_SETEUID")
        elif fn == "f_export_uid" and fld == "uid":
            c1 = is_field(rhs, "euid", "current_object")
            c2 = has_guard(f, b.id, euid_nonnull_of("current_object"))
            c3 = has_guard(f, b.id, euid_null_of(tgt))
            ok = c1 and c2 and c3
            why = "uid := current_object->euid%s; exporter euid non-zero %s; target euid zero %s" % ("" if c1 else " (NO: %s)" % show(rhs), c2, c3)
        elif fn == "reload_object" and fld == "euid":
            ok = const_val(rhs) == 0
            why = "reload_object resets euid to NULL" if ok else "reload_object assigns a non-NULL euid"
        elif fn == "get_empty_object":
            ok = const_val(rhs) == 0
            why = "allocation zeroing"
        run.ob("C20-a", inst, ok, "%s — %s" % (show(n), why), f.file, n.get("l"), f.name,
               what="%s of %s written in %s: %s" % (fld, tgt, f.name, why))
    for f, b, n, fld in escapes:
        okf = f.name == "get_empty_object" and (n.get("k") == "Call" or (n.get("k") == "Asg" and strip(n["R"]).get("n") == "NULL_object"))
        run.ob("C20-a", "escape:%s:%s:%s" % (rel(f.file), f.name, fld), okf,
               "%s — %s" % (show(n), "zeroing of a fresh object" if okf else "address-of / bulk write over an object_t may change uid/euid"),
               f.file, n.get("l"), f.name)

    # ---- C20-b
    C20_EFF = [None]
    geo_callers = sorted({f.name for f in funcs for _ in f.calls("get_empty_object")})
    run.ob("C20-b", "creators", set(geo_callers) <= {"load_object", "clone_object"} and bool(geo_callers),
           "get_empty_object called from %s" % geo_callers, None, None, None,
           what="object allocation outside load_object/clone_object: %s" % geo_callers)
    # creation targets: allocation, compilation, and the virtual-object path (the master's compile_object
    # creates an object on behalf of the caller, which load_object then adopts)
    for fname, targets in (("load_object", ("get_empty_object", "compile_file", "load_binary", "load_virtual_object")),
                           ("clone_object", ("get_empty_object", "load_virtual_object"))):
        f = byname[fname][0]
        run.saw(f)
        # gate edges
        pass_edges = []
        gate_found = False
        for bid in f.reachable():
            blk = f.blocks[bid]
            c = f.branch_cond(blk)
            if c is None:
                continue
            e, t = normalize_cond(c, True)  # e true <=> c == t
            e = strip(e)

            def edge_where(e_truth):
                # successor taken when stripped atom e evaluates to e_truth
                return blk.succ[0] if (e_truth == t) else blk.succ[1]
            if e.get("k") == "Ref" and e.get("n") == "current_object":
                pass_edges.append((bid, edge_where(False), "no current_object"))
            elif e.get("k") == "Bin" and e.get("op") in ("==", "!=") and {strip(e["L"]).get("n"), strip(e["R"]).get("n")} == {"current_object", "master_ob"}:
                pass_edges.append((bid, edge_where(e["op"] == "=="), "caller is the master"))
            elif euid_nonnull_of("current_object")(e, True) or euid_nonnull_of("current_object")(e, False):
                nonnull_truth = True if euid_nonnull_of("current_object")(e, True) else False
                pass_edges.append((bid, edge_where(nonnull_truth), "euid non-zero"))
                # the failing edge must end in error() unless a listed bypass follows
                gate_found = True
            elif fname == "load_object" and e.get("k") == "Bin" and strip(e["L"]).get("k") == "Call" and strip(e["L"]).get("fn") == "get_machine_state" \
                    and e.get("op") in (">=", "<"):
                pass_edges.append((bid, edge_where(e["op"] == "<"), "before the mudlib is up (driver boot)"))
        pe = {(b, s) for b, s, _ in pass_edges if s is not None}
        for tname in targets:
            calls = list(f.calls(tname))
            if tname != "load_virtual_object" or fname == "load_object":
                run.need(calls, "%s call in %s" % (tname, fname))
            for j, (b, i, n) in enumerate(calls):
                p = f.reach_avoiding([f.entry], lambda blk, bb=b.id: blk.id == bb, avoid_edges=pe)
                ok = gate_found and p is None
                run.ob("C20-b", "gate:%s:%s:%d" % (fname, tname, j), ok,
                       "every path to %s crosses the euid gate or a listed bypass (%s)" % (tname, sorted({w for _, _, w in pass_edges})) if ok
                       else "path %s reaches %s without the euid test" % (p, tname),
                       f.file, n.get("l"), fname, what="%s reaches %s without testing the caller's euid" % (fname, tname))
        # the gate is fresh: no call that runs LPC code (which can make the caller seteuid(0)) lies between the last
        # euid test and the creation; a path from such a call to the target has to cross the gate again
        if C20_EFF[0] is None:
            import callgraph as _cgm
            _cg = _cgm.CallGraph(prog)
            C20_EFF[0] = (_cg, _cg.reaches(_cgm.LPC_SEEDS | {"<unknown>"}, barriers={"fatal"} | _cgm.RAISE_SEEDS),
                          _cg.reaches(_cgm.LPC_SEEDS | {"<unknown>"}, barriers={"fatal", "apply_master_ob", "safe_apply_master_ob"} | _cgm.RAISE_SEEDS))
        _cg, returning_lpc, returning_lpc_user = C20_EFF[0]
        for tname in targets:
            for j, (b, i, n) in enumerate(list(f.calls(tname))):
                stale = None
                for b0, i0, n0 in f.calls():
                    if n0 is n or n0.get("fn") in ("error", "fatal") or not (_cg.callees_of_call(f, n0) & returning_lpc):
                        continue
                    if b0.id == b.id:
                        if i0 < i:
                            stale = (n0.get("fn"), n0.get("l"), [b.id], bool(_cg.callees_of_call(f, n0) & returning_lpc_user))
                        continue
                    p2 = f.reach_avoiding([sx for sx in f.blocks[b0.id].live_succ() if (b0.id, sx) not in pe], lambda blk, bb=b.id: blk.id == bb, avoid_edges=pe, avoid_blocks=[b0.id])
                    # only calls that lie after the gate matter: the path must not need to pass the gate to get to b0 either
                    if p2 is not None:
                        strong = bool(_cg.callees_of_call(f, n0) & returning_lpc_user)
                        if stale is None or (strong and not stale[3]):
                            stale = (n0.get("fn"), n0.get("l"), p2[:8], strong)
                        if strong:
                            break
                if not gate_found:
                    continue
                run.ob("C20-b", "fresh-gate:%s:%s:%d" % (fname, tname, j), True if stale is None else (False if stale[3] else None),
                       "no LPC-running call lies between the euid test and %s()" % tname if stale is None else
                       ("" if stale[3] else "(only a master hook runs in between: not decided) ") + "%s() at line %s runs LPC code (it can make the caller seteuid(0)) and %s() at line %s is then reached (path %s) without testing the euid again" % (stale[0], stale[1], tname, n.get("l"), stale[2]),
                       f.file, n.get("l"), fname, what="%s creates an object after LPC code ran since the caller's euid was last tested" % fname)
        # the failing edge of the euid test leads to error() (possibly via the master exemption)
        for bid in f.reachable():
            blk = f.blocks[bid]
            c = f.branch_cond(blk)
            if c is None:
                continue
            e, t = normalize_cond(c, True)
            e = strip(e)
            nn = euid_nonnull_of("current_object")
            if nn(e, True) or nn(e, False):
                fail_truth = False if nn(e, True) else True
                s = blk.succ[0] if (fail_truth == t) else blk.succ[1]
                # from the failing edge, every path to a creation target must pass a bypass edge (master) — i.e. reaching a target avoiding pass edges is impossible
                bad = None
                if s is not None:
                    for tname in targets:
                        for b2, i2, n2 in f.calls(tname):
                            p = f.reach_avoiding([s], lambda blk2, bb=b2.id: blk2.id == bb, avoid_edges=pe)
                            if p is not None:
                                bad = (tname, p)
                run.ob("C20-b", "gate:%s:fails-closed" % fname, bad is None,
                       "the euid==0 edge cannot reach object creation except through the master exemption" if bad is None else "euid==0 edge reaches %s via %s" % bad,
                       f.file, f.line_of_block(bid), fname, what="%s: a caller with euid 0 can still create objects" % fname)

    # ---- C20-c
    g = byname["give_uid_to_object"][0]
    run.saw(g)
    applies = [b.id for b, i, n in g.calls() if n.get("fn") == "apply_master_ob" and facts.any_in_macro(n["args"][0], "APPLY_CREATOR_FILE")]
    run.need(applies, "creator_file apply in give_uid_to_object")
    for f, b, n, fld, o in stores:
        if f.name != "give_uid_to_object" or fld != "uid":
            continue
        pre_mudlib = has_guard(g, b.id, lambda e, t: e.get("k") == "Bin" and strip(e["L"]).get("fn") == "get_machine_state" and ((e["op"] == "<") == t))
        p = g.reach_avoiding([g.entry], lambda blk, bb=b.id: blk.id == bb, avoid_blocks=applies)
        ok = pre_mudlib or p is None
        run.ob("C20-c", "creator:%s" % site(f, n, fld, o), ok,
               "%s — %s" % (show(n), "before the mudlib is up" if pre_mudlib else ("after apply_master_ob(creator_file)" if ok else "path %s avoids the creator_file apply" % p)),
               g.file, n.get("l"), g.name, what="uid assigned without consulting the master's creator_file")
    gcallers = sorted({f.name for f in funcs for _ in f.calls("give_uid_to_object")})
    icallers = sorted({f.name for f in funcs for _ in f.calls("init_object")})
    # give_uid_to_object() is reached from load_object()/clone_object() only, directly or through the wrapper init_object()
    direct = [x for x in gcallers if x != "init_object"]
    run.ob("C20-c", "callers", bool(gcallers) and set(direct) <= {"load_object", "clone_object"} and set(icallers) <= {"load_object", "clone_object"} and ("init_object" not in gcallers or bool(icallers)),
           "give_uid_to_object <- %s <- %s" % (gcallers, icallers), g.file, g.line, g.name,
           what="uid assignment reachable from %s / %s" % (gcallers, icallers))
    for fname in sorted(set(icallers) | set(direct)):
        f = byname[fname][0]
        for j, (b, i, n) in enumerate([x for x in f.calls() if x[2].get("fn") in ("init_object", "give_uid_to_object")]):
            a0 = strip(n["args"][0])
            fresh = False
            if a0.get("k") == "Ref" and a0.get("d") == "local":
                for b2, i2, n2 in f.nodes():
                    if n2.get("k") == "Asg" and strip(n2["L"]).get("id") == a0.get("id") and strip(n2["R"]).get("fn") == "get_empty_object" \
                            and f.point_dominates((b2.id, i2), (b.id, i)):
                        # no other assignment to the variable between: all other assignments must not lie on a path from the allocation to the call
                        fresh = True
                        for b3, i3, n3 in f.nodes():
                            if n3.get("k") == "Asg" and n3 is not n2 and strip(n3["L"]).get("id") == a0.get("id"):
                                if (b3.id in cfgq.reach_set(f, f.blocks[b2.id].live_succ(), avoid_blocks=[b.id]) or b3.id == b2.id and i3 > i2) and \
                                        (b.id in cfgq.reach_set(f, [b3.id]) ):
                                    if b3.id == b2.id and i3 < i2:
                                        continue
                                    fresh = False
            run.ob("C20-c", "fresh:%s:%d" % (fname, j), fresh, "init_object(%s) on the object just returned by get_empty_object" % show(a0) if fresh else "init_object argument %s is not a fresh allocation" % show(a0),
                   f.file, n.get("l"), fname, what="init_object/give_uid_to_object applied to an existing object in %s" % fname)

    # ---- C20-d a uid record that objects point at is not renamed
    run.rule("C20-d", "objects hold pointers to shared userid_t records, so renaming a record renames the uid and euid of every object that has it: userid_t.name is stored only by add_uid() (a new record) and by set_root_uid()/set_backbone_uid(), and those two are called only under a test that this is the first load of the master object (a flag taken from `!master_ob` before the new master is installed)", 3)
    nd = 0
    renamers = set()
    for f in sorted(prog.functions(), key=lambda x: (x.file, x.line)):
        for b, i, n in f.nodes():
            if n.get("k") == "Asg" and strip(n["L"]).get("k") == "Mem" and strip(n["L"]).get("f") == "name" and "userid" in (strip(n["L"]).get("rec") or ""):
                nd += 1
                run.saw(f)
                creating = any(c.get("fn") in ("ALLOCATE", "xalloc", "DXALLOC", "DMALLOC", "malloc", "calloc") or "alloc" in (c.get("fn") or "").lower() for b2, i2, c in f.calls())
                callers = {g.name for g in prog.functions() for b2, i2, c in g.calls(f.name)}
                helper_of = f.static and callers and callers <= {"set_root_uid", "set_backbone_uid"}
                okc = creating or f.name in ("set_root_uid", "set_backbone_uid") or helper_of
                if f.name in ("set_root_uid", "set_backbone_uid"):
                    renamers.add(f.name)
                run.ob("C20-d", "name-store:%s" % f.name, okc, "%s stores the name of a %s" % (f.name, "record it has just allocated" if creating else ("well-known record on behalf of set_root_uid()/set_backbone_uid()" if helper_of else "well-known record (callers checked below)")) if okc else
                       "%s() renames an existing uid record (line %s): every object holding it changes its uid/euid without export_uid/seteuid" % (f.name, n.get("l")), f.file, n.get("l"), f.name,
                       what="%s renames a shared uid record" % f.name)
    for f in sorted(prog.functions(), key=lambda x: (x.file, x.line)):
        k = 0
        for b, i, n in f.calls():
            if n.get("fn") not in ("set_root_uid", "set_backbone_uid"):
                continue
            nd += 1
            run.saw(f)
            # guarded by a flag whose only definition is `!master_ob` (or master_ob == 0), or by that test itself
            first = False
            for c, t, gb in cfgq.guards(f, b.id):
                c0 = strip(c)
                if c0.get("k") == "Ref" and c0.get("d") == "local" and t:
                    defs = [v["init"] for b2, i2, n2 in f.nodes() if n2.get("k") == "Decl" for v in n2.get("vars", ()) if v.get("id") == c0.get("id") and isinstance(v.get("init"), dict)]
                    defs += [n2["R"] for b2, i2, n2 in f.nodes() if n2.get("k") == "Asg" and n2.get("op") == "=" and strip(n2["L"]).get("id") == c0.get("id")]
                    if len(defs) == 1:
                        e, tt = normalize_cond(defs[0], True)
                        e = strip(e)
                        if (e.get("k") == "Ref" and e.get("n") == "master_ob" and not tt) or (e.get("k") == "Bin" and e.get("op") == "==" and strip(e["L"]).get("n") == "master_ob" and const_val(e["R"]) == 0 and tt):
                            first = True
                e, tt = normalize_cond(c, t)
                if strip(e).get("k") == "Ref" and strip(e).get("n") == "master_ob" and not tt:
                    first = True
            run.ob("C20-d", "rename-call:%s:%s:%d" % (f.name, n["fn"], k), first, "%s() is called only when this is the first load of the master object" % n["fn"] if first else
                   "%s() at line %s is not under the first-load test: on a reload of the master it renames the record that existing root objects point at, their uid and euid change with it" % (n["fn"], n.get("l")), f.file, n.get("l"), f.name,
                   what="%s calls %s() on a reload of the master object: every object holding the old root/backbone uid is renamed" % (f.name, n["fn"]))
            k += 1
    run.need(nd >= 3, "uid record name stores and rename calls (found %d)" % nd)

    # ---- C20-e no pointer to a uid record outlives the records
    run.rule("C20-e", "the records behind uid and euid are freed in bulk when the driver is taken down; the file-scope pointers to the well-known records (root, backbone) are cleared by the function that frees them, on every path behind the bulk free - otherwise the next start in the same process sees them non-null, set_root_uid()/set_backbone_uid() rename a freed record instead of creating one, and the backbone test of object creation compares against freed memory", 2)
    uptrs = sorted(k for k, g in prog.globals().items() if "userid" in (g.get("t") or "") and (g.get("t") or "").rstrip().endswith("*"))
    freers = set()
    for f in prog.functions():
        for b, i, n in f.calls():
            if n.get("fn") in ("free", "FREE", "xfree") and n.get("args") and "userid" in (strip(n["args"][0]).get("t") or ""):
                freers.add(f.name)
    ne = 0
    for f in sorted(prog.functions(), key=lambda x: (x.file, x.line)):
        if f.name in freers:
            continue
        for b, i, n in f.calls():
            bulk = [strip(a).get("n") for a in n.get("args", []) if strip(a).get("k") == "Ref" and strip(a).get("d") == "func" and strip(a).get("n") in freers]
            if not bulk and n.get("fn") not in freers:
                continue
            if n.get("fn") in freers and not bulk:
                # a single record freed directly: not the bulk release
                continue
            run.saw(f)
            for g in uptrs:
                ne += 1
                # cleared anywhere in the function that frees the records, on every path through it (in front of the bulk
                # free is as good as behind it: nothing in between can set the pointer again without a store here)
                clears = set()
                sets = False

                def zero(e):
                    e = strip(e)
                    return const_val(e) == 0 or (e.get("k") == "Asg" and e.get("op") == "=" and zero(e["R"]))
                for b2, i2, n2 in f.nodes():
                    if n2.get("k") == "Asg" and n2.get("op") == "=" and strip(n2["L"]).get("k") == "Ref" and strip(n2["L"]).get("n") == g and strip(n2["L"]).get("d") in ("global", "static"):
                        if zero(n2["R"]):
                            clears.add(b2.id)
                        else:
                            sets = True
                # a file-local helper that does nothing to g but clear it counts as a clear at its call
                for b2, i2, n2 in f.calls():
                    h_ = prog.func(n2.get("fn")) if n2.get("fn") else None
                    if h_ is None or not h_.static or h_.file != f.file:
                        continue
                    hs = [n3 for b3, i3, n3 in h_.nodes() if n3.get("k") == "Asg" and n3.get("op") == "=" and strip(n3["L"]).get("k") == "Ref" and strip(n3["L"]).get("n") == g and strip(n3["L"]).get("d") in ("global", "static")]
                    if hs and all(zero(n3["R"]) for n3 in hs) and h_.reach_avoiding([h_.entry], lambda blk: blk.id == h_.exit, avoid_blocks={b3.id for b3, i3, n3 in h_.nodes() if n3 in hs}) is None:
                        clears.add(b2.id)
                ok = not sets and bool(clears) and (b.id in clears or f.reach_avoiding([f.entry], lambda blk: blk.id == f.exit, avoid_blocks=clears) is None)
                run.ob("C20-e", "cleared:%s:%s" % (f.name, g), ok, "%s is set to 0 on every path behind %s(.., %s)" % (g, n.get("fn"), bulk[0]) if ok else
                       "%s() frees every uid record with %s(.., %s) at line %s and leaves `%s` pointing at one of them: after the next init in this process %s sees it non-null and works on freed memory" % (
                           f.name, n.get("fn"), bulk[0], n.get("l"), g, "set_root_uid()" if "root" in g else "set_backbone_uid()" if "backbone" in g else "its user"),
                       f.file, n.get("l"), f.name, what="%s frees the uid records and leaves %s dangling" % (f.name, g))
    run.need(ne >= 2, "bulk release of uid records x file-scope record pointers (found %d)" % ne)


    # ---- C20-f a uid name maps to its record by content
    run.rule("C20-f", "add_uid() is the map from a uid name to the record objects point at (uidcmp() compares interned string pointers): what it returns is the result of the tree search made with the interned copy of its argument, or a record allocated there - never a record picked by another criterion (a remembered result compared by the caller's string pointer, which a freed and reused buffer of another name can match): seteuid() would install a euid the master did not approve", 1)
    nfu = 0
    for f in sorted(prog.functions(), key=lambda x: (x.file, x.line)):
        allocs = [(b, i, n) for b, i, n in f.nodes() if n.get("k") == "Asg" and n.get("op") == "=" and "userid" in (strip(n["L"]).get("t") or "") and strip(n["L"]).get("k") == "Ref"
                  and any(y.get("k") == "Call" and "alloc" in (y.get("fn") or "").lower() for y in walk(n["R"]))]
        if not allocs or not any(True for _ in f.calls("tree_add")):
            continue
        for j, (b, i, n) in enumerate([x for x in f.nodes() if x[2].get("k") == "Return" and x[2].get("e") is not None]):
            nfu += 1
            run.saw(f)
            e = strip(n["e"])
            while e.get("k") == "Asg":
                e = strip(e["R"])
            ok, why = None, "`%s` is not a form this rule reads" % show(n)[:50]
            if e.get("k") == "Ref" and e.get("d") in ("global", "static", "slocal"):
                ok, why = False, "`%s` (line %s) hands out a remembered record instead of the one the tree search finds for the interned name: the caller's string pointer can belong to another name by now" % (show(n)[:50], n.get("l"))
            elif e.get("k") == "Ref" and e.get("d") == "local":
                defs = [n2["R"] for b2, i2, n2 in f.nodes() if n2.get("k") == "Asg" and n2.get("op") == "=" and strip(n2["L"]).get("k") == "Ref" and strip(n2["L"]).get("id") == e.get("id")]
                good = [any(y.get("k") == "Call" and ((y.get("fn") or "").startswith("tree_") or "alloc" in (y.get("fn") or "").lower()) for y in walk(d)) for d in defs]
                ok = bool(defs) and all(good)
                why = "every value of `%s` is the tree search result or a new record" % e.get("n") if ok else "`%s` (line %s): `%s` has a definition that is neither the tree search nor an allocation" % (show(n)[:40], n.get("l"), e.get("n"))
            run.ob("C20-f", "lookup:%s:%d" % (f.name, j), ok, why, f.file, n.get("l"), f.name, what="%s answers a uid name with a record not found by that name" % f.name)
    run.need(nfu >= 1, "returns of the uid record constructor (found %d)" % nfu)
