"""snprintf()/vsnprintf() truncation tests (used by C14-e and C01-q).

The functions return the length the text would have had; the text fits the buffer of `S` bytes iff the result is
<= S - 1.  A comparison of the result with `S + k` splits the results into a small side and a large side; the small
side is the one treated as "the buffer holds the whole text".  Its largest member must be <= S - 1."""
from facts import strip, show, walk, const_val, normalize_cond
from core import rel

FAMILY = {"snprintf": 1, "vsnprintf": 1}


def _lin(e):
    """expression -> (base text, constant)"""
    e = strip(e)
    if isinstance(e, dict) and e.get("k") == "Bin" and e.get("op") in ("+", "-"):
        c = const_val(e["R"])
        if c is not None and strip(e["R"]).get("k") != "Sizeof":
            b, k = _lin(e["L"])
            return b, k + (c if e["op"] == "+" else -c)
    if isinstance(e, dict) and e.get("k") == "Sizeof":
        return "sizeof(%s)" % (show(e["e"]) if "e" in e else e.get("of")), 0
    return show(e), 0


def sites(prog):
    """[(f, call node, cond node, line, ok, text)]"""
    out = []
    for f in prog.functions():
        calls = [(b, i, n) for b, i, n in f.calls() if n.get("fn") in FAMILY and len(n.get("args", [])) > 1]
        if not calls:
            continue
        # result variables
        resvar = {}
        for b, i, n in f.nodes():
            if n.get("k") == "Asg" and n.get("op") == "=" and strip(n["R"]).get("k") == "Call" and strip(n["R"]).get("fn") in FAMILY and strip(n["L"]).get("k") == "Ref":
                resvar.setdefault(strip(n["L"]).get("id"), []).append(strip(n["R"]))
            if n.get("k") == "Decl":
                for v in n.get("vars", ()):
                    if isinstance(v.get("init"), dict) and strip(v["init"]).get("k") == "Call" and strip(v["init"]).get("fn") in FAMILY:
                        resvar.setdefault(v.get("id"), []).append(strip(v["init"]))
        for bid in sorted(f.reachable()):
            c = f.branch_cond(bid)
            if c is None:
                continue
            for x in walk(c):
                if x.get("k") != "Bin" or x.get("op") not in ("<", "<=", ">", ">="):
                    continue
                for res, other, flip in ((x["L"], x["R"], False), (x["R"], x["L"], True)):
                    r0 = strip(res)
                    call = None
                    if r0.get("k") == "Call" and r0.get("fn") in FAMILY:
                        call = r0
                    elif r0.get("k") == "Ref" and r0.get("id") in resvar and len(resvar[r0["id"]]) == 1:
                        # the only snprintf result this variable receives; other stores (clamps) come after the test
                        call = resvar[r0["id"]][0]
                        others = [n for b, i, n in f.nodes() if n.get("k") == "Asg" and strip(n["L"]).get("k") == "Ref" and strip(n["L"]).get("id") == r0["id"] and strip(n["R"]) is not call]
                        if any(not _after(f, bid, n) for n in others):
                            call = None
                    if call is None:
                        continue
                    sb, sk = _lin(call["args"][1])
                    kb, kk = _lin(other)
                    if sb != kb:
                        continue
                    op = x["op"]
                    if flip:
                        op = {"<": ">", "<=": ">=", ">": "<", ">=": "<="}[op]
                    # largest result on the small side, relative to S
                    k = kk - sk
                    small_max = {">": k, ">=": k - 1, "<": k - 1, "<=": k}[op]
                    ok = small_max <= -1
                    text = "%s(%s, %s, ...) compared `%s`: results up to S%+d are taken as fitting a buffer that holds S-1 characters" % (call["fn"], show(call["args"][0])[:20], show(call["args"][1])[:30], show(x)[:70], small_max) if not ok else \
                           "%s(.., %s, ..) compared `%s`: fits means result <= S%+d" % (call["fn"], show(call["args"][1])[:30], show(x)[:70], small_max)
                    out.append((f, call, x, f.blocks[bid].term.get("l") if f.blocks[bid].term else x.get("l"), ok, text))
                    break
    return out


def _after(f, bid, n):
    """store node n lies in a block reachable only after branch block bid (dominated by it)"""
    for b, i, m in f.nodes():
        if m is n:
            return b.id != bid and f.dominates(bid, b.id)
    return False


def check(run, prog, rule, keep, minimum, total_min, tail):
    allsites = sites(prog)
    run.need(len(allsites) >= total_min, "snprintf-family results compared with the buffer size, program-wide (found %d)" % len(allsites))
    n = 0
    seen = {}
    for f, call, x, line, ok, text in allsites:
        if not keep(f):
            continue
        n += 1
        run.saw(f)
        base = "fit:%s:%s" % (rel(f.file), f.name)
        seen[base] = seen.get(base, 0) + 1
        run.ob(rule, "%s:%d" % (base, seen[base] - 1), ok, text, f.file, line or call.get("l"), f.name, what="%s: %s - %s" % (f.name, text, tail))
    run.need(n >= minimum, "snprintf truncation tests in scope (found %d)" % n)
    return n
