"""free_unused_identifiers() puts the identifier table back on every path (used by C02-h and C07-h)."""
import rules.C02g as c02g
from facts import strip, show, walk, atom_of, const_val


def check(run, prog, rule, tail):
    f = run.need(prog.func("free_unused_identifiers"), "free_unused_identifiers")
    run.saw(f)
    written = {}
    for b, i, n in f.nodes():
        t = c02g.written_var(n)
        if t is not None:
            written.setdefault(t["n"], n.get("l"))
    # arrays of statics rebuilt by a loop (ident_hash_table[i] = ...) are covered through their drain/loop heads only when the
    # loop itself is passed by every execution: treat the scalar statics
    resets = c02g.unconditional_resets(f)
    run.need(written, "statics written by free_unused_identifiers")
    for name in sorted(written):
        ok = name in resets
        why = resets.get(name)
        if not ok:
            # paths that skip the reset are fine when they are taken only with the variable already null
            reset_blocks = {b.id for b, i, n in f.nodes() if n.get("k") == "Asg" and n.get("op") == "=" and (c02g.written_var(n) or {}).get("n") == name}
            null_edges = []
            for bid in f.reachable():
                c = f.branch_cond(bid)
                if c is None:
                    continue
                for idx, truth in ((0, True), (1, False)):
                    op, l, r = atom_of(c, truth)
                    l0 = strip(l) if l is not None else {}
                    if l0.get("k") == "Ref" and l0.get("n") == name and ((op == "==" and r is not None and const_val(r) == 0) or op == "false"):
                        null_edges.append((bid, f.blocks[bid].succ[idx]))
            p2 = f.reach_avoiding([f.entry], lambda blk: f.exit in blk.live_succ() and not blk.nr, avoid_blocks=reset_blocks, avoid_edges=null_edges)
            if p2 is None and (reset_blocks or null_edges):
                ok, why = True, "every path either assigns it or is taken with `%s` null" % name
        run.ob(rule, "ident-reset:%s" % name, ok, "%s: %s" % (name, why) if ok else
               "free_unused_identifiers() writes `%s` (line %s) but not on every path from its entry to a return: a compilation can end with the identifier state of the previous one still in place" % (name, written[name]),
               f.file, written[name], f.name, what="free_unused_identifiers() can return without resetting `%s`: %s" % (name, tail))
    return len(written)
