"""The buffer-scan functions of src/comm.c, by what they do (their names are not part of the rules):

  scanner   static, one interactive_t* parameter, returns int, reads text_start and text_end, stores nothing through its
            parameter and calls nothing that does: answers "is there a complete command in the buffer" (cmd_in_buf)
  taker     static, one interactive_t* parameter, returns char*, reads text_start/text_end: hands out the first complete
            command (first_cmd_in_buf)"""
from facts import strip, walk


def find(comm):
    scanners, takers = set(), set()
    for f in comm.funcs.values():
        f = getattr(f, "plain", f)
        ps = f.params or []
        if len(ps) != 1 or "interactive" not in (ps[0].get("t") or ""):
            continue
        reads = {x.get("f") for b, i, x in f.nodes() if x.get("k") == "Mem"}
        if not ({"text_start", "text_end"} <= reads):
            continue
        stores = [n for b, i, n in f.nodes() if n.get("k") == "Asg" and strip(n["L"]).get("k") == "Mem" and strip(strip(n["L"])["b"]).get("id") == ps[0].get("id")]
        if (f.rt or "") == "int" and not stores and not any(True for _ in f.calls()):
            scanners.add(f.name)
        if "char" in (f.rt or "") and "*" in (f.rt or ""):
            takers.add(f.name)
    return scanners, takers
