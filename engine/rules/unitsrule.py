"""Bytes-versus-index agreement in the compiler's memory blocks (engine/units.py), used by C02-o and C17-g."""
import units
from core import rel

TEXT = ("compiler memory blocks, units of measure: mem_block[K].current_size is a byte count, current_size / sizeof(T) an element index; "
        "dimensions are propagated through locals, parameters of file-local helpers and record fields that receive nothing else. "
        "A byte count is never multiplied by sizeof again, never subscripts or offsets a typed (T *) view of a block, and an index of "
        "multi-byte elements is never added to the raw (char *) block")


def check(run, prog, rule, keep, minimum, what_tail):
    run.rule(rule, TEXT, minimum)
    fs = [f for f in prog.functions() if "/lib/lpc/" in f.file]
    U = units.Units(fs)
    n = 0
    seen = {}
    for f, node, kind, ok, text in U.sites():
        if not keep(f, text):
            continue
        n += 1
        run.saw(f)
        base = "%s:%s:%s" % (kind, rel(f.file), f.name)
        seen[base] = seen.get(base, 0) + 1
        inst = "%s:%d" % (base, seen[base] - 1)
        run.ob(rule, inst, ok, text, f.file, node.get("l"), f.name, what="%s: %s - %s" % (f.name, text, what_tail))
    run.need(n >= minimum, "unit-carrying expressions (found %d)" % n)
    run.note("%s: %d tracked variables, %d tracked fields (%s)" % (rule, len(U.var), len(U.field), ", ".join("%s.%s" % k for k in sorted(U.field))))
