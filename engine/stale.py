"""Typestate A3: pointers that go stale across a call.

A set of tracked pointer variables (locals/params chosen by the client) is followed through a function.
A *kill* call makes every tracked pointer stale; an assignment to the variable (from anything but
another tracked variable) or a client-defined branch edge makes it current again.  Every use of a
tracked pointer (dereference, or being passed to a call) is recorded together with the kill sites that
reach it unrefreshed.  Operands of a call element are evaluated before the call's own effect."""
from dataflow import solve
from facts import strip, walk


def implied_atoms(c, truth):
    """Atomic conditions that certainly hold when `c` evaluates to `truth`."""
    c = strip(c)
    if not isinstance(c, dict):
        return
    if c.get("k") == "Un" and c.get("op") == "!":
        yield from implied_atoms(c["e"], not truth)
        return
    if c.get("k") == "Bin" and c.get("op") == "&&":
        if truth:
            yield from implied_atoms(c["L"], True)
            yield from implied_atoms(c["R"], True)
        return
    if c.get("k") == "Bin" and c.get("op") == "||":
        if not truth:
            yield from implied_atoms(c["L"], False)
            yield from implied_atoms(c["R"], False)
        return
    yield c, truth


class Result:
    def __init__(self):
        self.kills = {}      # site (block id, elem idx, line, callee name) -> strength
        self.uses = []       # (block, node, ref node, description, frozenset of unrefreshed kill sites)
        self.ins = None

    def stale_by_site(self):
        out = {}
        for blk, n, ref, what, sites in self.uses:
            for s in sites:
                out.setdefault(s, []).append((n.get("l"), what))
        return {s: sorted(set(v), key=lambda x: (x[0] or 0, x[1])) for s, v in out.items()}


def analyse(f, tracked, kill_strength, edge_refresh=None, edge_unkill=None, subscript_is_use=False, infeasible_edges=(), derive=False, fresh_call=None, own_call=None, init_state=None):
    """derive=True: an assignment `v = <expr mentioning tracked w>` gives v the union of the states of the
    tracked variables the expression mentions (a pointer derived from a borrowed value dies with it), and the
    assignments of an element take effect after its kills (`v = f()` where f() itself is a kill leaves v fresh).
    fresh_call(call node) -> True when the call's result is a fresh value whatever its arguments are."""
    """tracked: {var id: name}.  kill_strength(call node, state) -> None | label.
    edge_refresh(cond, truth) -> iterable of var ids made current on that edge.
    edge_unkill(cond, truth, block) -> predicate on sites to drop on that edge (or None)."""
    res = Result()

    def _derive_assign(st, vid, r):
        """derive mode: st holds only the variables that currently hold a borrowed value"""
        if r.get("k") == "Call":
            if fresh_call is not None and fresh_call(r):
                st[vid] = frozenset()         # a new borrow: valid until the next kill
            else:
                st.pop(vid, None)             # result of some other call: not borrowed
            return
        acc = None
        for x in walk(r):
            if x.get("k") == "Ref" and x.get("id") in st:
                acc = st[x.get("id")] if acc is None else (acc | st[x.get("id")])
        if acc is None:
            st.pop(vid, None)
        else:
            st[vid] = acc

    def transfer(record):
        def t(blk, st):
            for i, e in enumerate(blk.el):
                nodes = list(walk(e, True))
                if record is not None:
                    for n in nodes:
                        k = n.get("k")
                        if k == "Call":
                            for a in n.get("args", []):
                                a = strip(a)
                                if a.get("k") == "Ref" and a.get("id") in tracked:
                                    record.append((blk, n, a, "passed to %s()" % (n.get("fn") or "(*)"), st.get(a.get("id"), frozenset())))
                        elif k == "Mem":
                            b = strip(n["b"])
                            if b.get("k") == "Ref" and b.get("id") in tracked and n.get("a"):
                                record.append((blk, n, b, "%s->%s" % (b.get("n"), n.get("f")), st.get(b.get("id"), frozenset())))
                        elif k == "Un" and n.get("op") == "*":
                            b = strip(n["e"])
                            if b.get("k") == "Ref" and b.get("id") in tracked:
                                record.append((blk, n, b, "*%s" % b.get("n"), st.get(b.get("id"), frozenset())))
                        elif k == "Sub" and subscript_is_use:
                            b = strip(n["b"])
                            if b.get("k") == "Ref" and b.get("id") in tracked:
                                record.append((blk, n, b, "%s[..]" % b.get("n"), st.get(b.get("id"), frozenset())))
                ordered = nodes if not derive else ([x for x in nodes if x.get("k") == "Call"] + [x for x in reversed(nodes) if x.get("k") != "Call"])
                for n in ordered:
                    k = n.get("k")
                    if k == "Call":
                        if derive and own_call is not None and own_call(n):
                            # the holder copies the lender's value into storage of its own: what was validly borrowed
                            # up to here is kept alive by that copy
                            st = {v: x for v, x in st.items() if x}
                        s = kill_strength(n, st)
                        if s:
                            site = (blk.id, i, n.get("l"), n.get("fn") or "(*)")
                            res.kills[site] = s
                            st = dict(st)
                            for v in (tracked if not derive else list(st)):
                                st[v] = st.get(v, frozenset()) | frozenset([site])
                    elif k == "Asg" and n.get("op") == "=":
                        l = strip(n["L"])
                        if l.get("k") == "Ref" and l.get("id") in tracked:
                            r = strip(n["R"])
                            st = dict(st)
                            if derive:
                                _derive_assign(st, l.get("id"), r)
                            else:
                                st[l.get("id")] = st.get(r.get("id"), frozenset()) if (r.get("k") == "Ref" and r.get("id") in tracked) else frozenset()
                    elif derive and k == "Un" and n.get("op") == "++":
                        # `v->ref++`: the holder takes its own reference, the value is no longer borrowed
                        t = strip(n["e"])
                        if t.get("k") == "Mem" and t.get("f") == "ref":
                            b0 = strip(t["b"])
                            while b0.get("k") == "Mem":
                                b0 = strip(b0["b"])
                            if b0.get("k") == "Ref" and b0.get("id") in st:
                                st = dict(st)
                                st.pop(b0.get("id"), None)
                    elif k == "Decl":
                        for v in n.get("vars", []):
                            if v.get("id") in tracked and "init" in v:
                                r = strip(v["init"])
                                st = dict(st)
                                if derive:
                                    _derive_assign(st, v.get("id"), r)
                                else:
                                    st[v.get("id")] = st.get(r.get("id"), frozenset()) if (r.get("k") == "Ref" and r.get("id") in tracked) else frozenset()
            return st
        return t

    def edge(blk, idx, s, st):
        if (blk.id, s) in infeasible_edges:
            return None
        c = f.branch_cond(blk)
        if c is None or idx > 1:
            return st
        if edge_refresh is not None:
            vs = list(edge_refresh(c, idx == 0))
            if vs:
                st = dict(st)
                for v in vs:
                    if isinstance(v, tuple):
                        # ("eq", x, y): both name the same object on this edge; what validates one validates the other
                        _, x, y = v
                        both = st.get(x, frozenset()) & st.get(y, frozenset())
                        st[x] = both
                        st[y] = both
                    else:
                        st[v] = frozenset()
        if edge_unkill is not None:
            pred = edge_unkill(c, idx == 0, blk)
            if pred is not None:
                st = {v: frozenset(x for x in sites if not pred(x)) for v, sites in st.items()}
        return st

    def join(a, b):
        if a == b:
            return a
        out = dict(a)
        for k, v in b.items():
            out[k] = out.get(k, frozenset()) | v
        return out

    res.ins = solve(f, dict(init_state or {}), transfer(None), edge, join)
    tr = transfer(res.uses)
    for bid in sorted(f.reachable(), reverse=True):
        if bid in res.ins:
            tr(f.blocks[bid], res.ins[bid])
    return res
