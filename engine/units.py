"""Units of measure for the compiler's memory blocks (bytes vs element index).

`mem_block[K].current_size` is a byte count.  Dividing it by sizeof(T) gives an element index, multiplying an
index by sizeof(T) gives bytes again.  The analysis assigns one of

    ("B",)        bytes
    ("I", s)      index of elements of s bytes
    "const"       literal
    None          unknown

to expressions, flow-insensitively per local variable and per record field (the join of all stores in scope),
and reports the places where the two kinds meet: an index scaled by another element size, a byte count scaled
again, a byte count used to subscript a typed view of a block, an index added to the raw (char *) block, a
variable or field that receives both kinds.  Only definite mismatches are violations; everything else with a
known dimension is a discharged instance, unknown dimensions are not instances at all."""
from facts import strip, show, walk, const_val

B = ("B",)


def _sizeof(e):
    e = strip(e)
    if isinstance(e, dict) and e.get("k") == "Sizeof" and "v" in e:
        return e["v"]
    return None


def _bytes_view(t):
    import re
    return re.match(r"^(const )?((unsigned|signed) )?(char|void) \*$", t.strip()) is not None


def _join(a, b):
    if a is None or a == "const":
        return b if b is not None else a
    if b is None or b == "const":
        return a
    if a == b:
        return a
    if isinstance(a, tuple) and a[0] == "X":
        return a
    if isinstance(b, tuple) and b[0] == "X":
        return b
    return ("X", a, b)


class Units:
    def __init__(self, funcs):
        self.funcs = list(funcs)
        self.var = {}      # (func id, local id) -> dim
        self.field = {}    # (rec, field) -> dim
        self.var_src = {}
        self.field_src = {}
        self.poison = set()
        self.byname = {}
        for f in self.funcs:
            self.byname.setdefault(f.name, []).append(f)
        # a parameter of a function that is not called in scope (or through a pointer) has no known dimension
        called = {n.get("fn") for f in self.funcs for b, i, n in f.calls()}
        for f in self.funcs:
            if f.name not in called or not f.static:
                for p in (f.params or []):
                    if p.get("id") is not None:
                        self.poison.add((f.id, p["id"]))
        self._solve()

    # -- dimension of an expression
    def dim(self, f, e, depth=0):
        if depth > 20 or not isinstance(e, dict):
            return None
        e = strip(e)
        k = e.get("k")
        if k == "Int" or (k in ("Sizeof",)) or const_val(e) is not None:
            return "const"
        if k == "Mem":
            if e.get("f") == "current_size":
                return B
            key = (e.get("rec"), e.get("f"))
            return None if key in self.poison else self.field.get(key)
        if k == "Ref":
            if e.get("id") is not None and e.get("d") in ("local", "slocal", "param"):
                return None if (f.id, e["id"]) in self.poison else self.var.get((f.id, e["id"]))
            return None
        if k == "Bin":
            op = e.get("op")
            L, R = e["L"], e["R"]
            if op == "/":
                s = _sizeof(R)
                dl = self.dim(f, L, depth + 1)
                if s is not None and dl == B:
                    return ("I", s)
                return None
            if op == "*":
                for a, b in ((L, R), (R, L)):
                    s = _sizeof(b)
                    if s is not None:
                        da = self.dim(f, a, depth + 1)
                        if isinstance(da, tuple) and da[0] == "I":
                            return B
                        if da == B:
                            return ("X", B, "scaled twice")
                        return B
                return None
            if op in ("+", "-"):
                dl = self.dim(f, L, depth + 1)
                dr = self.dim(f, R, depth + 1)
                if dl == "const":
                    return dr if op == "+" else None
                if dr == "const":
                    return dl
                if dl is None or dr is None:
                    return None
                return _join(dl, dr) if dl == dr else None
            return None
        if k == "Cond":
            return _join(self.dim(f, e.get("a"), depth + 1), self.dim(f, e.get("b"), depth + 1))
        if k == "Asg" and e.get("op") == "=":
            return self.dim(f, e["R"], depth + 1)
        return None

    def _targets(self):
        """every (key, function, value expression, line, name) that stores into a tracked variable or field"""
        for f in self.funcs:
            for b, i, n in f.nodes():
                k = n.get("k")
                if k == "Asg":
                    t = strip(n["L"])
                    key = None
                    if t.get("k") == "Ref" and t.get("id") is not None and t.get("d") in ("local", "slocal", "param"):
                        key = (f.id, t["id"])
                    elif t.get("k") == "Mem" and t.get("f") != "current_size" and t.get("rec"):
                        key = (t.get("rec"), t["f"])
                    if key is not None:
                        yield key, f, (n["R"] if n.get("op") == "=" else None), n.get("l"), t.get("n") or t.get("f")
                elif k == "Un" and n.get("op") in ("++", "--"):
                    pass   # stepping an index or an offset keeps its kind
                elif k == "Decl":
                    for v in n.get("vars", ()):
                        if v.get("id") is not None and isinstance(v.get("init"), dict):
                            yield (f.id, v["id"]), f, v["init"], n.get("l"), v.get("n")
                elif k == "Call" and n.get("fn") in self.byname:
                    for g in self.byname[n["fn"]]:
                        for p in (g.params or []):
                            pi = p.get("pi")
                            if pi is None or p.get("id") is None or pi >= len(n.get("args") or []):
                                continue
                            yield (g.id, p["id"]), f, n["args"][pi], n.get("l"), p.get("n")

    def _solve(self):
        targets = list(self._targets())
        for _round in range(8):
            self.var, self.field = {}, {}
            for _ in range(8):
                changed = False
                for key, f, val, line, nm in targets:
                    if key in self.poison or val is None:
                        continue
                    d = self.dim(f, val)
                    if d is None or d == "const":
                        continue
                    store = self.field if isinstance(key[1], str) else self.var
                    nd = _join(store.get(key), d)
                    if nd != store.get(key):
                        store[key] = nd
                        changed = True
                if not changed:
                    break
            # anything that also receives a value of unknown kind is not a dedicated carrier
            newp = set()
            for key, f, val, line, nm in targets:
                if key in self.poison:
                    continue
                if val is None or self.dim(f, val) is None:
                    newp.add(key)
            if not newp:
                break
            self.poison |= newp
        self.var_src, self.field_src = {}, {}

    # -- the places where units meet
    def sites(self):
        """[(func, node, kind, ok, text)]"""
        out = []

        def name(d):
            if d == B:
                return "a byte count"
            if isinstance(d, tuple) and d[0] == "I":
                return "an index of %d-byte elements" % d[1]
            return str(d)

        for f in self.funcs:
            for b, i, n in f.nodes():
                k = n.get("k")
                if k == "Bin" and n.get("op") == "*":
                    for a, s_e in ((n["L"], n["R"]), (n["R"], n["L"])):
                        s = _sizeof(s_e)
                        if s is None:
                            continue
                        da = self.dim(f, a)
                        if da == B:
                            out.append((f, n, "scale", False, "`%s` is %s and is multiplied by sizeof (%d) again" % (show(a)[:50], name(da), s)))
                        elif isinstance(da, tuple) and da[0] == "I":
                            out.append((f, n, "scale", True, "`%s` is %s, scaled by sizeof = %d" % (show(a)[:50], name(da), s)))
                        break
                elif k == "Bin" and n.get("op") in ("+", "-") and "*" in (n.get("t") or ""):
                    # pointer arithmetic on a block
                    P, off = strip(n["L"]), n["R"]
                    base = P
                    typed = None
                    raw = n["L"]
                    while isinstance(raw, dict) and raw.get("k") in ("ICast", "Cast"):
                        if raw.get("k") == "Cast":
                            typed = raw.get("t")
                        raw = raw["e"]
                    if not (base.get("k") == "Mem" and base.get("f") == "block"):
                        continue
                    do = self.dim(f, off)
                    if do is None or do == "const" or (isinstance(do, tuple) and do[0] == "X"):
                        continue
                    is_char = typed is None or _bytes_view(typed)
                    if is_char:
                        ok = do == B
                        out.append((f, n, "offset", ok, "`%s` (%s) is added to the raw block `%s`" % (show(off)[:50], name(do), show(base)[:40])))
                    else:
                        ok = isinstance(do, tuple) and do[0] == "I"
                        out.append((f, n, "offset", ok, "`%s` (%s) is added to the `%s` view of `%s`" % (show(off)[:50], name(do), typed, show(base)[:40])))
                elif k == "Sub":
                    raw = n["b"]
                    typed = None
                    while isinstance(raw, dict) and raw.get("k") in ("ICast", "Cast"):
                        if raw.get("k") == "Cast":
                            typed = raw.get("t")
                        raw = raw["e"]
                    if not (isinstance(raw, dict) and raw.get("k") == "Mem" and raw.get("f") == "block"):
                        continue
                    do = self.dim(f, n["i"])
                    if do is None or do == "const" or (isinstance(do, tuple) and do[0] == "X"):
                        continue
                    is_char = typed is None or _bytes_view(typed)
                    ok = (do == B) if is_char else (isinstance(do, tuple) and do[0] == "I")
                    out.append((f, n, "subscript", ok, "`%s` (%s) subscripts the %s view of `%s`" % (show(n["i"])[:50], name(do), typed or "raw", show(raw)[:40])))
        return out
