"""Witness self-test (thorough tier): every seeded one-instance breakage under
engine/witnesses/<Cxx>/*.patch is applied to a scratch copy of /repo (outside
/repo and /verif, removed immediately), the check is re-run against the copy
and must fire, naming the expected instance.  Evidence about the checker only:
it never influences the verdict on /repo."""
import json
import os
import re
import shutil
import subprocess
import sys
import tempfile
from concurrent.futures import ThreadPoolExecutor

VERIF = os.path.dirname(os.path.dirname(os.path.abspath(__file__)))
REPO = os.environ.get("NEOLITH_REPO", "/repo")


def parse_header(path):
    """Header lines of a witness patch:  '# expect: <regex over output>'  '# rule: C15-a'  '# what: text'"""
    meta = {"expect": [], "what": "", "rule": "", "silent": ""}
    for line in open(path, errors="replace"):
        if not line.startswith("#"):
            break
        m = re.match(r"#\s*(expect|what|rule|silent):\s*(.*)$", line.rstrip())
        if m:
            if m.group(1) == "expect":
                meta["expect"].append(m.group(2))
            else:
                meta[m.group(1)] = m.group(2)
    return meta


def run_one(pid, patch, keep=False):
    meta = parse_header(patch)
    tmp = tempfile.mkdtemp(prefix="nlxw-")
    try:
        scratch = os.path.join(tmp, "repo")
        r = subprocess.run(["rsync", "-a", "--exclude", "_build", "--exclude", ".git", REPO.rstrip("/") + "/", scratch + "/"],
                           stdout=subprocess.PIPE, stderr=subprocess.PIPE)
        if r.returncode != 0:
            return {"witness": os.path.basename(patch), "status": "skipped", "why": "copy failed"}
        r = subprocess.run(["patch", "-p1", "--no-backup-if-mismatch", "-s", "-i", patch], cwd=scratch,
                           stdout=subprocess.PIPE, stderr=subprocess.PIPE, text=True)
        if r.returncode != 0:
            return {"witness": os.path.basename(patch), "status": "skipped", "why": "patch no longer applies: " + (r.stdout + r.stderr)[-200:]}
        env = dict(os.environ)
        env.update({"NEOLITH_REPO": scratch, "NLX_CACHE": os.path.join(tmp, "cache"), "VERIF_EVIDENCE_DIR": os.path.join(tmp, "ev"),
                    "VERIF_TIER": "quick", "NLX_BIN": os.path.join(VERIF, ".cache", "bin", "nlx")})
        r = subprocess.run([sys.executable, os.path.join(VERIF, "check"), pid, "--tier", "quick"], env=env,
                           stdout=subprocess.PIPE, stderr=subprocess.STDOUT, text=True)
        out = r.stdout
        if meta["silent"]:
            # behaviour-preserving variant: the check must stay quiet
            status = "silent-ok" if r.returncode == 0 and "VIOLATION" not in out else "FALSE-ALARM"
            res = {"witness": os.path.basename(patch), "status": status, "rule": meta["rule"], "what": meta["what"], "exit": r.returncode}
            if status != "silent-ok":
                res["output_tail"] = out[-1500:]
            return res
        fired = r.returncode == 1 and "VIOLATION property=%s" % pid in out
        named = all(re.search(e, out) for e in meta["expect"]) if meta["expect"] else fired
        status = "fired" if (fired and named) else ("fired-unnamed" if fired else ("broken" if r.returncode == 2 else "missed"))
        res = {"witness": os.path.basename(patch), "status": status, "rule": meta["rule"], "what": meta["what"], "exit": r.returncode}
        if status != "fired":
            res["output_tail"] = out[-1500:]
        return res
    finally:
        if not keep:
            shutil.rmtree(tmp, ignore_errors=True)


def selftest(pid, mod=None, jobs=6):
    d = os.path.join(VERIF, "engine", "witnesses", pid)
    patches = sorted(os.path.join(d, f) for f in os.listdir(d) if f.endswith(".patch")) if os.path.isdir(d) else []
    if not patches:
        return {"total": 0, "fired": 0, "skipped": 0, "results": []}
    with ThreadPoolExecutor(max_workers=jobs) as ex:
        results = list(ex.map(lambda p: run_one(pid, p), patches))
    summ = {"total": len(results), "fired": sum(r["status"] == "fired" for r in results),
            "skipped": sum(r["status"] == "skipped" for r in results),
            "silent_ok": sum(r["status"] == "silent-ok" for r in results),
            "missed": [r["witness"] for r in results if r["status"] in ("missed", "fired-unnamed", "broken", "FALSE-ALARM")], "results": results}
    for r in results:
        print("   witness %-44s %s" % (r["witness"], r["status"]))
    return summ


if __name__ == "__main__":
    pid = sys.argv[1]
    if len(sys.argv) > 2:
        print(json.dumps(run_one(pid, os.path.abspath(sys.argv[2])), indent=1))
    else:
        print(json.dumps(selftest(pid), indent=1))
