#ifdef HAVE_CONFIG_H
#include <config.h>
#endif

#include <cstdlib>

#include "fixtures.hpp"

extern "C" {
    #include "apply.h"
    #include "simulate.h"
    #include "lpc/program.h"
    #include "lpc/functional.h"
    #include "lpc/include/function.h"
    #include "lpc/include/origin.h"
}

/*
 * C01 demonstration: a functional created in object A and re-bound to object B
 * with bind() points into A's *program*.  The program must stay allocated (and
 * must not be replaceable) for as long as the bound pointer is alive, even if
 * A itself is destructed - otherwise evaluating the pointer runs freed bytecode.
 *
 * No master object is loaded, so valid_bind is implicitly approved.
 */
class BindFunctionalTest : public LPCInterpreterTest {
protected:
    static constexpr const char* holder_code =
        "function fn;\n"
        "void set(function f) { fn = f; }\n"
        "int run(int x) { return evaluate(fn, x); }\n"
        "void drop() { fn = 0; }\n";

    object_t* load(const char* name, const char* code) {
        current_object = master_ob;
        object_t* ob = load_object(name, code);
        return ob;
    }

    /* holder->set(maker->make(holder)) */
    void make_and_store(object_t* maker, object_t* holder) {
        push_object(holder);
        svalue_t* ret = apply("make", maker, 1, ORIGIN_DRIVER);
        ASSERT_NE(ret, nullptr) << "make() not found";
        ASSERT_EQ(ret->type, T_FUNCTION) << "make() did not return a function";
        ASSERT_EQ(ret->u.fp->hdr.owner, holder) << "functional was not re-bound";
        ASSERT_EQ(ret->u.fp->hdr.type, FP_FUNCTIONAL);
        push_svalue(ret);
        ASSERT_NE(apply("set", holder, 1, ORIGIN_DRIVER), nullptr);
        /* drop the extra reference kept in apply_ret_value */
        ASSERT_NE(apply("run", holder, 0, ORIGIN_DRIVER), nullptr);
    }
};

TEST_F(BindFunctionalTest, boundFunctionalKeepsDefiningProgramAlive) {
    object_t* holder = load("bind_holder.c", holder_code);
    ASSERT_NE(holder, nullptr);
    object_t* maker = load("bind_maker.c",
        "function make(object o) { return bind((: $1 + 41 :), o); }\n");
    ASSERT_NE(maker, nullptr);

    make_and_store(maker, holder);
    if (HasFatalFailure()) return;

    /* the defining object goes away; only the bound functional (owned by
     * holder, stored in holder) still refers to maker's program. */
    size_t blocks = total_num_prog_blocks;
    destruct_object(maker);
    remove_destructed_objects();

    bool freed = (total_num_prog_blocks != blocks);
    EXPECT_FALSE(freed)
        << "program of the defining object was deallocated while a bound "
           "functional still points into it (use after free on evaluate())";
    if (freed && !getenv("BIND_DEMO_FORCE"))
        return; /* do not walk into freed memory unless explicitly asked to */

    /* owner (holder) is alive, so the pointer is callable */
    push_number(1);
    svalue_t* ret = apply("run", holder, 1, ORIGIN_DRIVER);
    ASSERT_NE(ret, nullptr);
    ASSERT_EQ(ret->type, T_NUMBER);
    EXPECT_EQ(ret->u.number, 42);

    /* releasing the last pointer releases the program */
    ASSERT_NE(apply("drop", holder, 0, ORIGIN_DRIVER), nullptr);
    EXPECT_EQ(total_num_prog_blocks, blocks - 1)
        << "program should be released together with the last functional";

    destruct_object(holder);
}

TEST_F(BindFunctionalTest, replaceProgramRefusedWhileBoundFunctionalAlive) {
    object_t* holder = load("bind_holder.c", holder_code);
    ASSERT_NE(holder, nullptr);
    object_t* base = load("bind_base.c", "int base_fn() { return 7; }\n");
    ASSERT_NE(base, nullptr);
    object_t* derived = load("bind_derived.c",
        "inherit \"bind_base\";\n"
        "function make(object o) { return bind((: $1 + 41 :), o); }\n"
        "mixed try_replace() { return catch(replace_program(\"bind_base\")); }\n");
    ASSERT_NE(derived, nullptr);

    make_and_store(derived, holder);
    if (HasFatalFailure()) return;

    /* a functional pointing into derived's program is outstanding:
     * replace_program() has to raise the LPC error. */
    svalue_t* ret = apply("try_replace", derived, 0, ORIGIN_DRIVER);
    ASSERT_NE(ret, nullptr);
    bool refused = (ret->type == T_STRING);
    EXPECT_TRUE(refused)
        << "replace_program() was accepted although a bound functional still "
           "points into the program that is going to be dropped";
    if (!refused && !getenv("BIND_DEMO_FORCE"))
        return;

    remove_destructed_objects(); /* performs queued program replacement, if any */

    push_number(1);
    ret = apply("run", holder, 1, ORIGIN_DRIVER);
    ASSERT_NE(ret, nullptr);
    ASSERT_EQ(ret->type, T_NUMBER);
    EXPECT_EQ(ret->u.number, 42);

    ASSERT_NE(apply("drop", holder, 0, ORIGIN_DRIVER), nullptr);
    destruct_object(derived);
    destruct_object(base);
    destruct_object(holder);
}

TEST_F(BindFunctionalTest, replayBoundCopyOfSharedFunctionalIsReleased) {
    object_t* holder = load("bind_holder2.c", holder_code);
    ASSERT_NE(holder, nullptr);
    object_t* maker = load("bind_maker2.c",
        "void churn(object o) { function f = (: $1 + 41 :); function g = bind(f, o); g = 0; f = 0; }\n");
    ASSERT_NE(maker, nullptr);
    /* warm up once so that caches (apply cache, strings) are populated */
    push_object(holder);
    ASSERT_NE(apply("churn", maker, 1, ORIGIN_DRIVER), nullptr);
    int before = holder->ref;
    for (int k = 0; k < 10; k++) {
        push_object(holder);
        ASSERT_NE(apply("churn", maker, 1, ORIGIN_DRIVER), nullptr);
    }
    int after = holder->ref;
    EXPECT_EQ(after, before) << "each bind() of a functional that is also held by a variable leaks the bound copy: the new owner's reference count grew by " << (after - before) << " in 10 rounds";
}
