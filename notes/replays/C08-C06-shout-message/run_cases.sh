#!/bin/sh
# usage: run_cases.sh <label>   (run from anywhere; uses the /tmp/c06g-wt build)
label=$1
cd /tmp/c06g-wt/_build/tests/test_lpc_interpreter || exit 1
for t in shoutReachesListenersAfterSelfDestruct shoutSkipsListenerDestructedByAnEarlierOne shoutListenerErrorLeavesNothingBehind messageInventoryErrorLeaksNoArray; do
  ./test_lpc_interpreter --gtest_filter=ShoutMessageTest.$t > /tmp/c06g-out/logs/$label.$t.full.log 2>&1
  rc=$?
  grep -v '"TRACE"' /tmp/c06g-out/logs/$label.$t.full.log > /tmp/c06g-out/logs/$label.$t.log
  rm -f /tmp/c06g-out/logs/$label.$t.full.log
  echo "$label $t exit=$rc"
done
for t in shoutListenerErrorLeavesNothingBehind messageInventoryErrorLeaksNoArray shoutReachesListenersAfterSelfDestruct; do
  valgrind -q --leak-check=full --show-leak-kinds=definite,indirect --errors-for-leak-kinds=definite --error-exitcode=9 \
    ./test_lpc_interpreter --gtest_filter=ShoutMessageTest.$t > /tmp/c06g-out/logs/$label.$t.valgrind.full.log 2>&1
  rc=$?
  grep -v '"TRACE"' /tmp/c06g-out/logs/$label.$t.valgrind.full.log > /tmp/c06g-out/logs/$label.$t.valgrind.log
  rm -f /tmp/c06g-out/logs/$label.$t.valgrind.full.log
  echo "$label valgrind $t exit=$rc; loss records: $(grep -c 'definitely lost in loss record' /tmp/c06g-out/logs/$label.$t.valgrind.log)"
done
