#!/usr/bin/env python3
"""Classify the error records of a valgrind memcheck text log.

usage: analyze.py <valgrind.log>
A record counts as a hit (the defect under replay) when
  - it is an 'Invalid read/write',
  - the accessed address lies in a block that was free'd by remove_interactive()
    (i.e. the interactive_t connection record), and
  - the access stack contains copy_chars / get_user_data / process_io.
Everything else is listed as 'other' and does not influence the exit status.
exit status: 1 if there is at least one hit, 0 otherwise.
"""
import re, sys, collections

FUNCS = ("copy_chars", "get_user_data", "process_io")
text = open(sys.argv[1], errors="replace").read()
lines = [re.sub(r"^==\d+== ?", "", l) for l in text.splitlines()]
records, cur = [], []
for l in lines:
    if l.strip() == "":
        if cur:
            records.append(cur); cur = []
    else:
        cur.append(l)
if cur:
    records.append(cur)

frame = re.compile(r"^\s+(at|by) 0x[0-9A-Fa-f]+: (\S+) \((?:in )?([^)]*)\)")
hits = collections.OrderedDict(); others = collections.OrderedDict()
for r in records:
    if not re.match(r"Invalid (read|write)", r[0]):
        if not r[0].startswith(("HEAP", "LEAK", "ERROR SUMMARY", "For ", "More than", "Go fix", "In fact", "Rerun", "Use --")):
            others[("non-access: " + r[0], "")] = others.get(("non-access: " + r[0], ""), 0) + 1
        continue
    access, desc, freed_by = [], "", []
    section = "access"
    for l in r[1:]:
        m = frame.match(l)
        if l.lstrip().startswith("Address "):
            desc = l.strip(); section = "free" if "free'd" in l else "alloc"
        elif l.lstrip().startswith("Block was alloc'd"):
            section = "alloc"
        elif m:
            if section == "access": access.append((m.group(2), m.group(3)))
            elif section == "free": freed_by.append(m.group(2))
    top = "%s (%s)" % access[0] if access else "?"
    via = [f for f, _ in access if f in FUNCS]
    is_hit = "free'd" in desc and "remove_interactive" in freed_by and via
    inner = next(("%s (%s)" % a for a in access if a[0] in FUNCS), "")
    key = (r[0] + " at " + top + ("" if inner == top or not inner else "  <- " + inner),
           re.sub(r"Address 0x[0-9A-Fa-f]+ is ", "", desc))
    d = hits if is_hit else others
    d[key] = d.get(key, 0) + 1

print("use-after-free of the interactive_t in copy_chars/get_user_data/process_io: %d distinct report(s)" % len(hits))
for (k, desc), n in hits.items():
    print("  HIT   %s\n          [%s]" % (k, desc))
print("other valgrind reports (not counted): %d distinct" % len(others))
for (k, desc), n in others.items():
    print("  other %s\n          [%s]" % (k, desc))
sys.exit(1 if hits else 0)
