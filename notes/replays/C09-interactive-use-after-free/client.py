#!/usr/bin/env python3
"""REPLAY client: send the triggering bytes, then check the driver still serves.

usage: client.py <case> <telnet_port> <ascii_port>
Prints what it observed; exit status is always 0 unless the driver never
came up (2).  The verdict is made by run.sh from the valgrind log.
"""
import socket, sys, time

CASES = {
    # unknown option 0x55 -> telnet_suboption("\x55abc")
    "subopt": ("telnet", b"\xff\xfa\x55abc\xff\xf0tail-after-SE\r\n"),
    # IAC SB TTYPE(24) IS(0) "xterm" IAC SE -> set_terminal_type("xterm")
    "ttype":  ("telnet", b"\xff\xfa\x18\x00xterm\xff\xf0tail-after-SE\r\n"),
    # IAC SB NAWS(31) 0 80 0 24 IAC SE -> set_window_size(80, 24)
    "naws":   ("telnet", b"\xff\xfa\x1f\x00\x50\x00\x18\xff\xf0tail-after-SE\r\n"),
    # two lines in one segment on the ascii port -> process_input() x2
    "ascii":  ("ascii", b"hello\nworld\n"),
}

def connect(port, tries=150):
    for _ in range(tries):
        try:
            return socket.create_connection(("127.0.0.1", port), timeout=5)
        except OSError:
            time.sleep(0.2)
    return None

def read_some(s, secs):
    s.settimeout(secs)
    data = b""
    try:
        while True:
            chunk = s.recv(4096)
            if not chunk:
                data += b"<EOF>"
                break
            data += chunk
            if b"\n" in data:
                s.settimeout(0.5)
    except OSError:
        pass
    return data

def main():
    case, tport, aport = sys.argv[1], int(sys.argv[2]), int(sys.argv[3])
    kind, payload = CASES[case]
    port = tport if kind == "telnet" else aport

    s = connect(port)
    if s is None:
        print("client: driver never accepted a connection on port %d" % port)
        return 2
    print("client: 1st connection (%s port %d) banner: %r" % (kind, port, read_some(s, 10)))
    s.sendall(payload)
    print("client: sent %r" % payload)
    print("client: 1st connection after trigger: %r" % read_some(s, 3))
    s.close()

    # second connection: is the driver still serving? also used to shut it down
    s2 = connect(tport, tries=25)
    if s2 is None:
        print("client: SECOND CONNECTION FAILED (driver gone?)")
        return 0
    banner = read_some(s2, 10)
    print("client: 2nd connection banner: %r" % banner)
    print("client: SECOND-CONNECTION-%s" % ("OK" if b"REPLAY-BANNER telnet" in banner else "NO-BANNER"))
    s2.sendall(b"ping\r\n")
    print("client: 2nd connection echo: %r" % read_some(s2, 5))
    s2.sendall(b"shutdown\r\n")
    read_some(s2, 3)
    s2.close()
    return 0

sys.exit(main())
