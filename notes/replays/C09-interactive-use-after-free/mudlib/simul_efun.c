// REPLAY: no simul efuns needed
void replay_dummy() { }
