// REPLAY user object for the ascii port: process_input destructs the user
// while get_user_data() is looping over the received lines.

void logon() {
  write ("REPLAY-BANNER ascii\n");
}

mixed process_input (string s) {
  destruct (this_object());
  return 1;
}
