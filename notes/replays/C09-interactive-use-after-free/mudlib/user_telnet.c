// REPLAY user object for the telnet port.
// Every telnet callback destructs the user object, which frees the
// interactive_t while copy_chars() is still running.

void logon() {
  write ("REPLAY-BANNER telnet\n");
}

void telnet_suboption (string s) {
  destruct (this_object());
}

void set_terminal_type (string s) {
  destruct (this_object());
}

void set_window_size (int w, int h) {
  destruct (this_object());
}

mixed process_input (string s) {
  if (s == "shutdown")
    shutdown();
  else
    write ("REPLAY-ECHO " + s + "\n");
  return 1;
}
