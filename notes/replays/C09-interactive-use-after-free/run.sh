#!/bin/bash
# REPLAY for the interactive_t use-after-free in src/comm.c
# (copy_chars / get_user_data / process_io after an LPC callback destructs
# the user object).
#
# usage: REPLAY/run.sh [case ...]       cases: subopt ttype naws ascii (default: all)
# env:   DRIVER=<path to neolith>       default: ../_build/src/neolith
# env:   OUT=<dir>                      default: REPLAY/out
# exit:  1 if valgrind reported invalid accesses to the freed interactive_t in
#        copy_chars/get_user_data/process_io for any case (see analyze.py),
#        0 if none, 2 on harness failure.  Other valgrind reports (e.g. the
#        unrelated all_users[] off-by-one in new_interactive) are listed but
#        do not change the exit status.
HERE=$(cd "$(dirname "$0")" && pwd)
DRIVER=${DRIVER:-$HERE/../_build/src/neolith}
CASES=${*:-subopt ttype naws ascii}
OUT=${OUT:-$HERE/out}
mkdir -p "$OUT"
[ -x "$DRIVER" ] || { echo "no driver binary at $DRIVER"; exit 2; }

free_port() { python3 -c 'import socket; s=socket.socket(); s.bind(("127.0.0.1",0)); print(s.getsockname()[1])'; }

bad=0; harness=0
for c in $CASES; do
  d=$OUT/$c; rm -rf "$d"; mkdir -p "$d"
  TP=$(free_port); AP=$(free_port)
  while [ "$AP" = "$TP" ]; do AP=$(free_port); done
  printf '#define TELNET_PORT %s\n#define ASCII_PORT %s\n' "$TP" "$AP" > "$HERE/mudlib/ports.h"
  cat > "$d/neolith.conf" <<CONF
MudlibDir	$HERE/mudlib
SimulEfunFile	/simul_efun.c
MasterFile	/master.c
Port		$TP:telnet
Port		$AP:ascii
CONF
  echo "=== case $c: telnet port $TP, ascii port $AP"
  valgrind -q --error-exitcode=99 --num-callers=20 --log-file="$d/valgrind.log" \
      "$DRIVER" -f "$d/neolith.conf" > "$d/driver.log" 2>&1 &
  pid=$!
  python3 "$HERE/client.py" "$c" "$TP" "$AP" 2>&1 | tee "$d/client.log"
  [ "${PIPESTATUS[0]}" = 0 ] || harness=1
  # wait (max 30 s) for the shutdown() requested by the client
  for i in $(seq 150); do kill -0 $pid 2>/dev/null || break; sleep 0.2; done
  if kill -0 $pid 2>/dev/null; then
    echo "driver still running, sending SIGKILL"; kill -9 $pid
  fi
  wait $pid; rc=$?
  echo "driver exit status: $rc"
  python3 "$HERE/analyze.py" "$d/valgrind.log" | tee "$d/analysis.txt"
  if [ "${PIPESTATUS[0]}" != 0 ]; then echo "RESULT $c: INVALID ACCESSES (use after free of interactive_t)"; bad=1
  else echo "RESULT $c: clean (no access to a freed interactive_t)"; fi
  grep -q "SECOND-CONNECTION-OK" "$d/client.log" && echo "SERVING $c: second connection got the banner" \
                                                 || echo "SERVING $c: second connection did NOT get the banner"
done
[ $harness = 1 ] && { echo "harness failure (driver did not come up)"; exit 2; }
exit $bad
