#!/usr/bin/env python3
"""Prints the prompt given to an auditing sub-agent for property <Cxx> (property text only; nothing from /verif's machinery)."""
import json, sys
pid = sys.argv[1]
for l in open('/verif/properties.jsonl'):
    p = json.loads(l)
    if p['id'] == pid:
        break
d = "/tmp/audit-" + pid
anchors = json.dumps(p.get("anchors", {}).get("mechanism", []), indent=1)
print(f"""You are working on taedlar/neolith, an LPMud game driver written in C (fork of MudOS): LPC lexer/preprocessor, compiler to bytecode, stack-machine interpreter, efuns, network backend. The repository is at /repo (git). DO NOT modify /repo in any way and do not read /verif. Make your own scratch worktree: `git -C /repo worktree add {d} HEAD` and work ONLY inside {d}.

Build and test (offline; everything needed is installed, there is no network):
  cmake -G Ninja -B {d}/_build -S {d} -DCMAKE_BUILD_TYPE=RelWithDebInfo && cmake --build {d}/_build
  ctest --test-dir {d}/_build -j8 --timeout 900        (115 tests at baseline)
The unit tests are GoogleTest programs under {d}/tests (see tests/test_lpc_interpreter, tests/test_efuns, tests/test_backend ... for how LPC snippets are compiled and run in-process with load_object(name, pre_text), and examples/ for a sample mudlib used by tests). valgrind and clang/gcc sanitizers (-fsanitize=address,undefined) are available.

This is a semantic property the code base is supposed to satisfy:

  {p['id']} — {p['title']}
  {p['statement']}
  (quantified over: {p['quantifier']['text']})
  Mechanisms it rests on: {anchors}

Your task is an AUDIT of the unmodified tree: find places where the real code VIOLATES this property - genuine defects, not style. The tree has already been through several review rounds, so the obvious things are fixed; look at the unusual paths: error/longjmp exits, re-entrancy from LPC callbacks (a callback can destruct objects, raise errors, call the same efun again, move objects, change the state the C code holds in locals), boundary values (0, 1, -1, INT_MIN/INT_MAX, empty strings/arrays, maximum sizes), resource exhaustion limits, state left behind by a failed operation that affects the next one, and disagreement between two functions that must implement the same rule. Read the code the property is anchored in, form concrete hypotheses, and TEST each one against the real code: write a GoogleTest case (or a small program linked like the existing tests) that demonstrates the violation - crash, sanitizer/valgrind report, wrong observable behaviour, leaked count - on the unmodified tree. Discard hypotheses you cannot demonstrate (say which ones and why in the notes: that is useful too).

For each CONFIRMED defect write a minimal fix a maintainer would accept (corrects the behaviour, does not remove it or special-case your input), rebuild, show your replay passes with the fix and the whole ctest suite still passes.

Deliverables under /tmp/audit-out-{pid}/ :
  NOTES.md    - per confirmed defect: what breaks (which clause of the property), the triggering input/sequence, exact file:line, before/after observation, why the fix is right; plus the list of hypotheses examined and rejected with the reason
  fix-N.diff  - one `git diff` per defect, src/ and lib/ changes only, each applying on its own to /repo HEAD with `git apply`
  tests.diff  - the added replay tests (test sources + CMake changes)
Remove the worktree when done (`git -C /repo worktree remove --force {d}`), keep /tmp/audit-out-{pid}.
Aim for depth over breadth: two or three well-demonstrated defects are worth more than a long list of guesses. If you find nothing after a thorough look, say so and list what you examined. Final answer: a short summary (defects confirmed, files, observations).""")
