#!/bin/sh
# Runs the repository's own test suite with the verification guard OFF (the guard is never defined by /repo's build).
set -e
cmake -G Ninja -B /repo/_build -S /repo >/dev/null
cmake --build /repo/_build
ctest --test-dir /repo/_build -j8 --timeout 900
