#!/usr/bin/env python3
"""Runs every quick check against behaviour-preserving refactorings (patch files) applied to scratch copies of /repo.
usage: tools/benign_probe.py <patch>... | <dir with *.diff>...     [-j N]
Every check must exit 0 on every patch: exit 1 is a false alarm, exit 2 an anchor the refactoring made unrecognisable.
Nothing is written to /repo; scratch copies live under a temporary directory and are removed."""
import glob, json, os, shutil, subprocess, sys, tempfile
from concurrent.futures import ThreadPoolExecutor

VERIF = os.path.dirname(os.path.dirname(os.path.abspath(__file__)))
PIDS = os.environ["BENIGN_PIDS"].split(",") if os.environ.get("BENIGN_PIDS") else ["C01", "C02", "C04", "C05", "C06", "C07", "C08", "C09", "C10", "C11", "C12", "C13", "C14", "C15", "C16", "C17", "C19", "C20"]


def probe(patch):
    tmp = tempfile.mkdtemp(prefix="nlxb-")
    res = {"patch": patch, "alarms": []}
    try:
        scratch = os.path.join(tmp, "repo")
        subprocess.run(["rsync", "-a", "--exclude", "_build", "--exclude", ".git", "/repo/", scratch + "/"], check=True)
        r = subprocess.run(["patch", "-p1", "--no-backup-if-mismatch", "-s", "-i", os.path.abspath(patch)], cwd=scratch, stdout=subprocess.PIPE, stderr=subprocess.STDOUT, text=True)
        if r.returncode != 0:
            res["status"] = "does-not-apply"
            res["why"] = r.stdout[-300:]
            return res
        env = dict(os.environ)
        env.update({"NEOLITH_REPO": scratch, "NLX_CACHE": os.path.join(tmp, "cache"), "VERIF_EVIDENCE_DIR": os.path.join(tmp, "ev"), "VERIF_TIER": "quick",
                    "NLX_BIN": os.path.join(VERIF, ".cache", "bin", "nlx")})
        for pid in PIDS:
            r = subprocess.run([sys.executable, os.path.join(VERIF, "check"), pid, "--tier", "quick"], env=env, stdout=subprocess.PIPE, stderr=subprocess.STDOUT, text=True)
            if r.returncode != 0:
                lines = [l for l in r.stdout.splitlines() if l.startswith("  ") and "[" in l or "ANALYSIS-BROKEN" in l or "Traceback" in l or "Error" in l]
                res["alarms"].append({"property": pid, "exit": r.returncode, "lines": [l[:400] for l in lines[:8]]})
        res["status"] = "silent" if not res["alarms"] else "ALARM"
        return res
    finally:
        shutil.rmtree(tmp, ignore_errors=True)


def main():
    args = sys.argv[1:]
    jobs = 4
    if "-j" in args:
        i = args.index("-j")
        jobs = int(args[i + 1])
        del args[i:i + 2]
    patches = []
    for a in args:
        if os.path.isdir(a):
            patches += sorted(glob.glob(os.path.join(a, "*.diff")) + glob.glob(os.path.join(a, "*.patch")))
        else:
            patches.append(a)
    with ThreadPoolExecutor(max_workers=jobs) as ex:
        results = list(ex.map(probe, patches))
    bad = 0
    for r in results:
        print("%-60s %s" % (r["patch"][-60:], r["status"]))
        if r["status"] == "does-not-apply":
            print("      " + r.get("why", "").replace("\n", " ")[:200])
        for a in r["alarms"]:
            bad += 1
            print("   %s exit=%d" % (a["property"], a["exit"]))
            for l in a["lines"]:
                print("      " + l.strip())
    print("%d patches, %d silent, %d with alarms, %d not applicable" % (len(results), sum(r["status"] == "silent" for r in results), sum(r["status"] == "ALARM" for r in results), sum(r["status"] == "does-not-apply" for r in results)))
    return 1 if bad else 0


if __name__ == "__main__":
    sys.exit(main())
