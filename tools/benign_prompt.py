#!/usr/bin/env python3
"""Prints the prompt for a 'benign refactoring' sub-agent for property <Cxx>: behaviour-preserving changes to the code
the property is about. Every check must stay silent on them (a report is a false alarm of the machinery)."""
import json, sys
pid = sys.argv[1]
for l in open('/verif/properties.jsonl'):
    p = json.loads(l)
    if p['id'] == pid:
        break
d = "/tmp/benign-" + pid
o = "/tmp/benign-out-" + pid
print(f"""You are working on taedlar/neolith, an LPMud game driver written in C (fork of MudOS): LPC lexer/preprocessor, compiler to bytecode, stack-machine interpreter, efuns, network backend. You have your own scratch git worktree of it at {d} . Work ONLY inside {d} and write your results to {o} . Never read, write or run anything under /repo or /verif (they are off limits), do not commit, and do not use `git stash` (shared between worktrees).

Build and test (offline; everything needed is installed):
  cmake -G Ninja -B {d}/_build -S {d} -DCMAKE_BUILD_TYPE=RelWithDebInfo && cmake --build {d}/_build
  ctest --test-dir {d}/_build -j8 --timeout 900      (115 tests, all pass on the clean tree)

This is a semantic property the code base satisfies:

  {p['id']} — {p['title']}
  {p['statement']}
  (quantified over: {p['quantifier']['text']})

Your task: find the driver code that implements this property (the functions whose correctness it depends on, including helpers, error paths and the places where the relevant state is initialised, grown and released) and write EIGHT separate, realistic, BEHAVIOUR-PRESERVING refactorings of that code - the kind of clean-up a maintainer commits without any intent to change what the driver does. The property must hold after each of them exactly as before, for every input. Spread them over different functions and use different techniques, for example:
  - extract a block into a static helper function (or inline a small helper into its only caller)
  - rename locals / parameters / a static function; change a local's type to an equivalent one (int -> ssize_t where the range is the same)
  - turn an if/else-if chain over one variable into a switch (or the reverse); invert a condition and swap the branches; replace nested ifs by early returns (or the reverse); merge two adjacent ifs with && / split an && into nested ifs
  - rewrite a loop in another form (for <-> while, index <-> pointer walk, do-while with a guard) with the same iteration space
  - hoist a repeated sub-expression into a local; introduce a named constant or macro for a literal; replace a macro use by its expansion
  - reorder statements that are independent of each other; move a declaration to its first use
  - replace a goto-cleanup by structured code (or the reverse); replace `x = x + 1` forms, `!p` vs `p == NULL`, `a->b` vs `(*a).b`
  - move a function to another place in the same file, or a static function into a sibling source file of the same library with a declaration in the shared header
Each refactoring should touch 10-60 lines of driver source (src/ or lib/), not tests or build files, and must really preserve behaviour on every path, including error paths (be careful with evaluation order, integer widths, and anything that runs between two statements you reorder). Do not 'fix' anything and do not weaken or strengthen any check.

For each refactoring N = 1..8: start from the clean tree (`git checkout -- . && git clean -fdq -e _build`), make the change, build, run the full ctest suite (all 115 must pass), and save `git diff` as {o}/r-N.diff . Each diff must apply on its own with `git apply` to the clean checkout.

Also write {o}/NOTES.md : for each N, the function(s) touched, the technique, and a two-line argument why behaviour is unchanged on all paths (including what you checked about evaluation order / widths / error exits), plus the ctest result.

Final answer: a short list of the eight refactorings (file, function, technique) and the test results.""")
