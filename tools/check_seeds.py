#!/usr/bin/env python3
"""Applies every stored seeded change to a scratch copy of /repo, runs the quick check of its property and reports whether it
is caught (never touches /repo).  usage: tools/check_seeds.py [-j N] [seed-dir-name ...]"""
import json, os, re, shutil, subprocess, sys, tempfile
from concurrent.futures import ThreadPoolExecutor
VERIF = os.path.dirname(os.path.dirname(os.path.abspath(__file__)))


def one(s):
    meta = json.load(open(os.path.join(VERIF, "seeded", s, "meta.json")))
    prop = meta["property"]
    if meta.get("obsolete"):
        return "%s (%s): obsolete (see meta.json)" % (s, prop)
    tmp = tempfile.mkdtemp(prefix="nlxs-")
    try:
        scratch = os.path.join(tmp, "repo")
        subprocess.run(["rsync", "-a", "--exclude", "_build", "--exclude", ".git", "/repo/", scratch + "/"], check=True)
        r = subprocess.run(["patch", "-p1", "--no-backup-if-mismatch", "-s", "-F0", "-i", os.path.join(VERIF, "seeded", s, "patch.diff")], cwd=scratch, stdout=subprocess.PIPE, stderr=subprocess.STDOUT)
        if r.returncode != 0:
            return "%s (%s): PATCH-DOES-NOT-APPLY" % (s, prop)
        env = dict(os.environ)
        env.update({"NEOLITH_REPO": scratch, "NLX_CACHE": os.path.join(tmp, "cache"), "VERIF_EVIDENCE_DIR": os.path.join(tmp, "ev"), "VERIF_TIER": "quick", "NLX_BIN": os.path.join(VERIF, ".cache", "bin", "nlx")})
        r = subprocess.run([sys.executable, os.path.join(VERIF, "check"), prop, "--tier", "quick"], env=env, stdout=subprocess.PIPE, stderr=subprocess.STDOUT, text=True)
        rules = " ".join(sorted(set(re.findall(r"^  \S+ (\[C\d\d-[a-z0-9]+\])", r.stdout, re.M))))
        return "%s (%s): rc=%d %s" % (s, prop, r.returncode, rules)
    finally:
        shutil.rmtree(tmp, ignore_errors=True)


def main():
    args = sys.argv[1:]
    jobs = 6
    if "-j" in args:
        i = args.index("-j")
        jobs = int(args[i + 1])
        del args[i:i + 2]
    seeds = args or sorted(os.listdir(os.path.join(VERIF, "seeded")))
    with ThreadPoolExecutor(max_workers=jobs) as ex:
        for line in ex.map(one, seeds):
            print(line, flush=True)


if __name__ == "__main__":
    main()
