#!/bin/bash
# Applies every stored seeded change to /repo transiently, runs the quick check of its property and reports whether it is caught.
# usage: tools/check_seeds.sh [seed-dir-name ...]
cd /verif
[ -z "$(git -C /repo status --porcelain --untracked-files=no)" ] || { echo "/repo has local changes; refusing"; exit 2; }
seeds=${@:-$(ls seeded)}
for s in $seeds; do
  prop=$(python3 -c "import json;print(json.load(open('seeded/$s/meta.json'))['property'])")
  if python3 -c "import json,sys;sys.exit(0 if json.load(open('seeded/$s/meta.json')).get('obsolete') else 1)"; then echo "$s ($prop): obsolete (see meta.json)"; continue; fi
  if ! git -C /repo apply --check /verif/seeded/$s/patch.diff 2>/dev/null; then echo "$s ($prop): PATCH-DOES-NOT-APPLY"; continue; fi
  git -C /repo apply /verif/seeded/$s/patch.diff
  out=$(./check $prop --tier quick 2>&1); rc=$?
  git -C /repo checkout -- .
  rules=$(echo "$out" | grep -o "\[C[0-9][0-9]-[a-z0-9]*\]" | sort -u | tr '\n' ' ')
  echo "$s ($prop): rc=$rc ${rules}"
done
