#!/bin/bash
# usage: confirm_seed.sh <Cxx> [worktree] [store-name]   — re-verifies a seeded change in its scratch worktree against /repo's current HEAD
# and, when confirmed, stores it under /verif/seeded/<Cxx>/ (patch.diff re-diffed against HEAD, demo, meta.json).
id=$1; wt=${2:-/tmp/seed-$1}; store=${3:-$1}; S=$wt/SEED; log=/tmp/confirm-$store.log
exec >$log 2>&1
set -x
cd $wt || exit 9
git reset -q --hard; git clean -fdq -e SEED -e _build
git checkout -q --detach main || exit 9
# apply the source patch (hunks already present in HEAD are skipped)
git apply $S/patch.diff 2>/dev/null || { for f in $(grep '^+++ b/' $S/patch.diff | sed 's|+++ b/||'); do git apply --include="$f" $S/patch.diff || true; done; }
git diff --stat
git diff > /tmp/seed-$store.cur.diff
[ -s /tmp/seed-$store.cur.diff ] || { echo "RESULT: patch does not apply"; exit 3; }
cmake -G Ninja -B _build -S . -DCMAKE_BUILD_TYPE=RelWithDebInfo >/dev/null && cmake --build _build >/dev/null || { echo "RESULT: build failed with patch"; exit 4; }
ctest --test-dir _build -j8 --timeout 900 | tail -3
ctest --test-dir _build -j8 --timeout 900 | grep -q "100% tests passed" ; suite=$?
bash $S/demo/run.sh >/tmp/seed-$store.demo.with 2>&1; with=$?
# drop the demo's own edits to tests before toggling; then revert the source patch only
git apply -R /tmp/seed-$store.cur.diff || { echo "RESULT: cannot revert"; exit 5; }
bash $S/demo/run.sh >/tmp/seed-$store.demo.without 2>&1; without=$?
echo "RESULT: suite_with_patch=$suite demo_with=$with demo_without=$without"
if [ $suite = 0 ] && [ $with != 0 ] && [ $without = 0 ]; then
  mkdir -p /verif/seeded/$store && cp /tmp/seed-$store.cur.diff /verif/seeded/$store/patch.diff && rm -rf /verif/seeded/$store/demo && cp -r $S/demo /verif/seeded/$store/demo && cp $S/NOTES.md /verif/seeded/$store/NOTES.md
  echo "RESULT: stored"
fi
