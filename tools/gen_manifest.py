#!/usr/bin/env python3
"""Regenerates /verif/MANIFEST.json from the claim table below (single source of truth)."""
import json
import os

HERE = os.path.dirname(os.path.dirname(os.path.abspath(__file__)))

TRUSTED = ("Trusted base: clang 14 parser/CFG builder, the compile database derived from /repo's CMake build, NO_RETURN "
           "annotations in /repo, field-based resolution of indirect calls, and the hand-confirmed tables in the rule module. "
           "Decides the named structural clauses only; the behavioural remainder listed in DESIGN.md is not decided.")

CLAIMS = {
    "C15": {
        "technique": "static analysis: path-provenance dataflow (taint-to-sink with sanitiser edges) over clang CFGs, inter-procedural parameter obligations, must-pass-through on check_valid_path, literal analysis of path text spliced in by the driver",
        "text": "Every file-system sink in all driver units (libc path arguments) is decided: its path is derived on every CFG path from a NULL-tested "
                "check_valid_path result with the right write flag, a legal_path guard, or driver-internal text; helper parameters are discharged at every call site. "
                "check_valid_path itself is shown to approve only after the master apply and legal_path. This is the mediation/confinement mechanism for all sites at once; "
                "the string semantics of legal_path/inc_lexically_normal are not decided. A driver literal containing '..' that is copied into a path buffer makes the buffer unvalidated (symlink texts included).",
        "design_ref": "DESIGN.md §5 C15",
    },
}

CLAIMS["C20"] = {
    "technique": "static analysis: who-may-write enumeration over object_t.uid/.euid in all units, guard dominance (edge atoms), master-approval gate reachability, who-may-call on get_empty_object, freshness of the euid gate (no LPC-running call between the last euid test and the creation, master-only hooks reported undecided), who-may-write on the name of shared uid records with a first-load guard on the two renaming setters",
    "text": "Every store to uid/euid anywhere in the driver (plus bulk writes over an object_t) is enumerated and each must be an allow-listed site meeting its dominating "
            "condition (seteuid only under MASTER_APPROVED(valid_seteuid) or to 0 on the caller; export_uid only from a non-zero euid onto a zero-euid target; creation-time uid only after the creator_file apply). "
            "Object creation (get_empty_object/compile_file/load_binary) is shown unreachable without crossing the euid gate on every CFG path. Universal over sites and paths; the data-dependent backbone branch is not decided. The euid test is repeated after any call that can run LPC code before the object is created (clone_object() tested only before loading the blueprint: found by audit, fixed). A uid record that objects point at is never renamed after the first load of the master object. The file-scope pointers to the well-known uid records are cleared where the records are freed in bulk (C20-e). add_uid() answers a name only with the record the tree search finds for its interned copy, or a new one (C20-f).",
    "design_ref": "DESIGN.md §5 C20",
}

CLAIMS["C05"] = {
    "technique": "static analysis: typestate dataflow over error_context_t (save/setjmp/restore/pop) with call-graph may_raise summaries, field-set sibling agreement, dominance and constant propagation in error_handler, restore wrappers recognised from the program (every path restores the context parameter), guard dominance on the unwind count, stack-effect abstract interpretation of every efun, must-consume path analysis of the apply family",
    "text": "All users of the error-recovery API are enumerated from the call graph; for each, the typestate automaton is run over the CFG with every call classified by an inter-procedural may-raise summary: "
            "no raising call while the context is registered but its jmp_buf unarmed, restore_context first on every recovery branch, pop_context on every exit, no re-raise into the same recovery point. "
            "save/restore and push/pop field sets must agree and pop_control_stack must restore each saved register from its own field on every path (recovery pops a single frame), error_handler must reset its guards before every longjmp. Decides the recovery mechanism on all paths. Also decided: the value stack is unwound by a count that cannot be negative and protected-call wrappers unwind to the caller's level instead of popping the original argument count on the recovery branch (the callee may have dropped arguments: found by replay, fixed); every member of the apply family consumes its arguments on every return; every efun leaves the stack at its declared depth; the command-giver stack is not held across a raise. error_handler() drops a pending `...` expansion count before any LPC code runs again (found by replay, fixed). Values computed by the recovered evaluation are not decided. Clean-up callbacks installed in value-stack slots, which run after restore_context() has restored the registers, store to none of those registers (C05-l).",
    "design_ref": "DESIGN.md §5 C05",
}

CLAIMS["C09"] = {
    "technique": "static analysis: error-context typestate on backend(), re-executed-region rule, guard dominance over every subscript of the connection table, cycle-passes-setjmp reachability for per-task recovery points, stale-pointer typestate for interactive_t* across calls that may free connection records (call-graph summaries, IP_VALID edge refinement), allocation/length agreement of the connection table, early-exit allow-list in error_handler",
    "text": "Decides the structural parts of driver survival: the backend recovery point is armed before anything can raise and nothing but once-guarded start-up steps is re-executed after a recovery; "
            "every one of the ~40 subscripts of all_users in the whole driver is guarded against the table being NULL (idle driver, no connection yet); every loop that runs LPC tasks under one error context either re-arms per task or is a reviewed safe restart. "
            "every interactive_t* held across a call that can reach remove_interactive or the interpreter is re-validated before use (six use-after-free sites found, replayed under valgrind and fixed; uses that are stale only through a snooper's callback are reported undecided); all_users is never recorded longer than allocated (off-by-one found and fixed); error_handler leaves without switching off the failing heart beat only on the catch path and the in_error exit. Liveness and 'the other users are served' are not decided.",
    "design_ref": "DESIGN.md §5 C09",
}

CLAIMS["C10"] = {
    "technique": "static analysis: sibling agreement of list-unlink sites (delta hand-over), dominance and avoid-set reachability in call_out() (dequeue-before-invoke, per-entry setjmp, release on both branches, clock after drain, destructed-target test), data-dependence of the stored revolutions/slot on delay, clock and wheel position, not-destructed edge of the function pointer's owner before call_function_pointer",
    "text": "Decides the bookkeeping mechanism of call_out for all paths: every unlink site of the delta-encoded slot lists hands the removed delta to its successor, insertion is symmetric, "
            "the entry leaves the list before its callback can run, each entry has its own recovery point and is released on both setjmp branches, and destructed targets/arguments are filtered. "
            "The revolutions stored for a new entry depend on delay, current_time and the wheel position call_out_time (a necessary condition while the wheel may lag the clock); the timing arithmetic itself over event histories (fires exactly once, not early, not late) is not decided. A function-pointer call_out is run only past an O_DESTRUCTED test of the pointer's owner. A file-scope counter of the call-out wheel is never decremented twice for one entry on a path (C10-e).",
    "design_ref": "DESIGN.md §5 C10",
}

CLAIMS["C11"] = {
    "technique": "static analysis: dominance / avoid-set reachability in error_handler, call_heart_beat and destruct_object, who-may-write on current_heart_beat, bounded-index idioms on heart_beats[], who-may-write on the O_HEART_BEAT bit with path proximity to the table update",
    "text": "Decides fault locality and list hygiene structurally: on the uncaught-error path error_handler switches off exactly current_heart_beat and clears it before jumping, nothing else writes that variable, the only exits that skip the switch-off are the catch path and the in_error exit, "
            "call_heart_beat publishes the object before calling it and clears it before reset/call_out run; destruct_object removes the heart beat before marking the object destructed; "
            "every heart_beats[] subscript except the round-robin cursor is bounded by the list length and the growth site grows. "
            "'Exactly once every n ticks' under enable/disable histories (index compensation) is not decided; the cursor subscript is reported as undecided. The O_HEART_BEAT bit is written only inside set_heart_beat() on the path that changed the table. A heart-beat round in code re-entered after the backend's recovery point runs under a once-flag set before the call (C11-g).",
    "design_ref": "DESIGN.md §5 C11",
}

CLAIMS["C13"] = {
    "technique": "static analysis: field-cursor bound inference (max over guarded increments and constant stores vs declared array extent), per-iteration longest-path store count in copy_chars vs read-budget divisors, append-destination rule, guard provenance of the command-available flag and of any bulk copy that bypasses the telnet state machine, must-leave analysis of the transient telnet states, store-on-every-path of the data state's default branch, initialisation dominance for fixed-offset reads of the sub-negotiation buffer, must-pass-through of the pending-command test before the input discard, forward dataflow with edge refinement on the ordering of the two input-buffer cursors",
    "text": "Decides the memory clauses of input framing for every byte stream at once: cursor fields indexing fixed arrays of the connection record cannot exceed the last valid index at any use; "
            "copy_chars' worst-case expansion per input byte (longest acyclic iteration path) is covered by every telnet read budget and the scratch buffers match the text buffer; new input is appended at text_end. "
            "Two structural necessary conditions of split-independence are decided: CMD_IN_BUF is raised only on the result of the shared buffer scan cmd_in_buf(), and input bytes bypass the per-byte state machine only under a test of the complete state word. Independence of delivered lines from packet boundaries in general and backspace editing are behavioural and not decided; text_end arithmetic is reported as undecided. Also decided: each after-IAC state assigns ip->state on every path through its case (so a two-byte command never swallows the next data byte), the data state's default branch stores a byte on every path, fixed-offset reads of sb_buf are dominated by the clear of its unused tail, and the over-long-line discard is reached only through cmd_in_buf() unless the bytes were already taken off the socket. text_end is lowered to a constant only where text_start is known to be 0. Console input the feeder counts as consumed cannot be refused by the function that stores it: the callee's limit lies above the room the feeder cut the piece to (C13-l).",
    "design_ref": "DESIGN.md §5 C13",
}

CLAIMS["C14"] = {
    "technique": "static analysis: interprocedural slack dataflow (lower bound on free ring slots; summaries of room-testing helpers per sign of their result with constant arguments bound, partition on conditional arguments, raw-put helpers charged at their call sites) at every store into message_buf, structural checks of the modular cursor arithmetic in flush_message, who-may-write, sibling agreement, boundary analysis of snprintf-family truncation tests",
    "text": "Decides the ring-buffer arithmetic on all paths: each store into the output ring happens at the producer with at least one free slot (including the CR LF pair and the re-test after a flush) and is followed by the modular advance and the length increment; "
            "flush_message sends only the contiguous unsent chunk, advances the consumer modulo the size by the bytes actually sent and lowers the length by the same amount, and consumes nothing when send fails; only the ring API writes the three cursor fields. "
            "A chunk length taken from a quantity that is not about the ring (the pending Synch count) only ever shortens the contiguous chunk. Text formatted into a fixed buffer on the output path is queued only when the truncation test puts a result of exactly the buffer size on the truncated side. In-order exactly-once delivery under arbitrary partial-write patterns is behavioural and not decided. The urgent-data mark is set to message_length only under a test that the marked bytes had room (C14-f).",
    "design_ref": "DESIGN.md §5 C14",
}

CLAIMS["C12"] = {
    "technique": "static analysis: guard dominance and avoid-set reachability in backend() and get_user_command(), who-may-write/read on the HAS_CMD_TURN bit over all units, must-pass-through of the cursor advance between the pick and the return of get_user_command, interprocedural provenance (constant / masked) of every value stored into the flag word that holds the turn bit",
    "text": "Decides the turn mechanism structurally: the grant loop covers every slot below max_users and precedes the command loop on every path of a backend iteration; "
            "the turn is consumed and a user selected only under (complete command) and (turn held), a user without a turn keeps command and turn, and no code but the grant loop and get_user_command touches the bit "
            "(so command() issued from LPC is never limited). The round-robin cursor is advanced inside get_user_command on every path that returns a command, i.e. before the command can leave by longjmp. Fairness over schedules and per-user ordering are not decided. Every value stored into iflags is a constant or is cut down by a constant mask without the turn and command bits, at the store or at every call site. max_users, the bound of every scan of the user table, is never lowered (C12-h). Stores that cut iflags down with a mask are read by value: a mask without the command-available or turn bit is a clear of that bit (C12-f, C12-c).",
    "design_ref": "DESIGN.md §5 C12",
}

CLAIMS["C17"] = {
    "technique": "static analysis: must-pass-through (avoid-set reachability on the passing/stale edges of each staleness test, loop-iteration form for includes and inherits) in load_binary; writer/reader agreement on the preamble; bypass analysis of the include-list registration in add_program_file, must-pass-through of a recording call between failed include candidates, provenance of the stat() path of the configuration stamp, units-of-measure (bytes vs element index) propagation through locals, helper parameters and dedicated record fields of the compiler's memory blocks",
    "text": "Decides the staleness clause for all paths of load_binary: the successful return is reachable only through the passing edge of the source, driver-id, config-id, per-include and per-inherit (source and binary) tests, and no stale edge can reach it; "
            "check_times reports newer-as-stale; the preamble is written and read in one order; config_id derives from the simul_efun file's mtime only; every non-top file registered by the lexer reaches the include list the binary is checked against. "
            "That the loaded program equals what the source compiles to (the first sentence of the property) is behavioural and not decided. Also decided: every include-list entry (a file that was included, or a place where one was looked for in vain) is tested in each iteration of the staleness loop, a failed include candidate is recorded before the next one is tried, and the configuration stamp is taken from a mudlib-relative name derived from the configured simul_efun object name; the patch list and the tables the binary is written from are addressed in one unit (a byte offset is never scaled again, an index never added to the raw block). The swap unit of quickSort divides the element size at every call site, so tables sorted before saving are sorted as a fresh compile sorts them (C17-h).",
    "design_ref": "DESIGN.md §5 C17",
}

CLAIMS["C04"] = {
    "technique": "static analysis: cycle-passes-test reachability on the interpreter dispatch loop, who-may-write on eval_cost and csp over all units, dominance of limit comparisons at every raw allocation/growth site (arrays, buffers, mapping nodes, strings), re-raise path analysis in do_catch, re-entrancy analysis (call-graph reachability of a writer between a store and its read-back) of the saved limit-error state, dead-guard analysis of the budget cut on recovery branches reachable from LPC",
    "text": "Decides the limit mechanism on all paths and sites: no cycle through the interpreter's dispatch avoids the exact-zero eval-cost tick and nothing else does arithmetic on the counter; refills happen only at task boundaries (the LPC-callable efun is a recorded finding); "
            "both control-frame pushes are behind the call-depth test; do_catch re-raises both limit errors and keeps them uncatchable for enclosing catches; every raw array/buffer allocation, mapping node increment and string growth site in the driver is dominated by a comparison with its configured maximum. "
            "The limit-error state kept across master::error_handler() is held in the activation, not in storage a nested error overwrites; protected calls reachable from LPC cut the renewed budget on their recovery branch under a condition that can hold there (error_handler() clears the limit state before every non-catch jump, so a test of it is dead). That one tick does bounded work inside every efun, and total memory, are not decided.",
    "design_ref": "DESIGN.md §5 C04",
}

CLAIMS["C07"] = {
    "technique": "static analysis: guard dominance of function_visible over both dispatch sites of apply_low, provenance of the flags operand, constant-mask check, hit/miss sibling agreement on the apply cache (negative entries only under lookup==NULL, field-set agreement), who-may-write, forward dataflow from every store to the global call_origin to its consuming apply_low, context-sensitive provenance of every function_flags read that reaches a FUNCTION_FLAGS store in the compiler's inherit handling, path completeness of the per-compilation identifier clean-up",
    "text": "Decides the visibility and cache mechanism structurally: no path of apply_low reaches the interpreter without function_visible(origin, flags of the object's own program) being true, call_other is refused for static/private/protected and nothing else is refused; "
            "the cache's hit test compares id, program and name, a negative entry is stored only when the lookup found nothing (so an earlier refused call cannot change a later verdict), and the hit path reads only fields the miss path writes. "
            "The origin handed over through the global call_origin is consumed by the next apply_low with no LPC-running call and no function exit in between (otherwise a load or a skipped element changes how the next call is classified). Entering an inherited program adds the inherit entry's offsets (pairs), alias slots get the aliased function's flags, and the flags of an inherited slot are read from the program named in the inherit statement at its own slot (not from the defining program, which lacks the modifiers of intermediate `static inherit` levels). Most-derived resolution order (find_function) is not decided. The binding of a permanent identifier to a function of the program being compiled is reset at the end of every compilation on every path, so a name resolves the same way whatever was compiled before. The program of an existing object is re-pointed only under a test that no function pointer indexes into the old one (C07-i).",
    "design_ref": "DESIGN.md §5 C07",
}

CLAIMS["C08"] = {
    "technique": "static analysis: per-opcode region analysis of the interpreter's fetch cases (destructed-object scrub), must-pass-through of every unlink step on all paths of destruct_object, precondition dominance in move_object, link-store-after-hook reachability, publish-before-destructible ordering in load_object/clone_object, stale-pointer typestate over object pointers for targets of apply()/apply_low() and for next_all/next_inv link reads across LPC callbacks (saved-successor idiom checked by a forward search to the first use), round-cursor arithmetic of the heart-beat table on removal (shared with C11)",
    "text": "Decides the destruction/visibility mechanism on all paths: each interpreter case that copies a stored value to the stack substitutes 0 for destructed objects (other copying cases are enumerated and reviewed); "
            "destruct_object cannot set O_DESTRUCTED without having passed the stack scrub, inventory unlink, name-hash and object-list removal, living-name, sentence, input_to, heart-beat steps and emptied its inventory, and disconnects afterwards; "
            "move_object relinks only after the containment-cycle walk and the destination-alive test. no inventory link is written after a re-entrant hook (destruct_object's unlink is the reviewed exception, constrained by the re-read rule); a new object is entered into the name table before anything that can destruct it runs. The forest invariant over operation histories is not decided. A local object pointer is handed to apply()/apply_low() only after a liveness test since the last LPC-running call (safe_apply is shown to refuse destructed targets itself); loops over obj_list and inventories do not follow a link out of an object that a callback may have destructed (clean_up() in a self-destructed object and the shout() walk were found, replayed and fixed). Walks that continue after a callback merely moved the object are reported undecided. A removal from the heart-beat table during a running round lowers the round length for every entry inside the round, so the round never walks onto the stale copy of a destructed object's entry. An object read out of a value (sv.u.ob) is tested for O_DESTRUCTED before apply()/apply_low() calls into it (C08-k).",
    "design_ref": "DESIGN.md §5 C08",
}

CLAIMS["C16"] = {
    "technique": "static analysis: sink/argument analysis and dominance in save_object (atomic replace protocol), sibling agreement between svalue_save_size and save_svalue (switch case sets, constant and per-iteration store counts vs accounted sizes), store-after-parse ordering in safe_restore_svalue, dominance of the inherit recursion over every use of num_variables_defined in the variable-layout walkers, must-pass-through of a NUL test in every delimiter-scanning loop of the string readers, type-width check of decimal accumulators and digit loops, call-cycle (SCC) analysis with counter-guard dominance for the recursion over nesting, may-raise effect analysis over the region where the temporary stream is open, writer/reader escape-table agreement, kill/use path analysis of the byte fetched behind a backslash, out-parameter definite assignment on success returns, sibling agreement of the seven growMap() callers on re-bucketing, printf-format analysis of float conversions",
    "text": "Decides the structural clauses: a save can only replace the final file by rename() of a fully written, successfully closed temporary derived from the approved path, failures remove the temporary, the stream is closed on every exit and nothing can leave by error() while it is open (except what a dry run already executed); "
            "every recursion cycle over the nesting of a value is bounded by a counter test or confined behind the bounded size pass, and the shared nesting counter is cleared when a compound restore starts; string readers test for the end of the text in every scanning loop; integers are accumulated and printed at 64 bits with an unsigned magnitude; every character the readers interpret is escaped by the writer, the byte behind a backslash is stored without being interpreted again, a parser that reports success has written its output value, a pair inserted while the hash table doubles is linked into the bucket of the new table, and floats are printed with a format that keeps them floats, identically in both passes; "
            "the size pass and the write pass of the serializer handle the same tags and never write more constant/delimiter bytes than were accounted, and callers allocate exactly that size; "
            "the no-clear restore stores into the variable only after a successful parse; every walker of the variable layout (save, restore, lookup) accounts for a program's inherited subtree before its own variables. Round-trip equality of values and robustness of the restore parser on arbitrary text are behavioural and not decided. A refusal of the integer reader that depends on the accumulated magnitude uses a bound of at least 2^63, so every integer the writer prints is read back (C16-o).",
    "design_ref": "DESIGN.md §5 C16",
}

CLAIMS["C19"] = {
    "technique": "static analysis: lockset dataflow (must-hold) over the message queue, thread-root closures from the call graph with shared-variable atomicity check, who-may-write on the eventfd counter, cross-thread write sites relative to thread creation, record-size and must-store path analysis of the notification pipe's reader",
    "text": "Decides race-freedom structurally where it can: every access to a mutable field or slot of the message queue is under the queue mutex on every path, no path returns with it held, the blocking writer releases it around its wait; "
            "variables written in a thread root's closure (timer thread, worker thread) and read by the backend must be atomic or locked (three are not: recorded findings); an eventfd counter may only be written with the constant 1 "
            "(the completion post encodes key/data in it: recorded finding); a variable a thread root writes is stored by other threads only before pthread_create (one site is not: recorded finding). On the pipe that replaced the eventfd each record is one atomic write, each read takes one record while the caller's array has room, every record taken is stored, and a completion is answered with 0 only behind a whole-record write (function summaries through file-local helpers). Exactly-once delivery under interleavings, FIFO order and termination of stop are schedule-dependent and not decided. The write end of the notify pipe is non-blocking, so a poster cannot stall against a main thread that is joining it (C19-c pipe-write-nonblocking). The queue cursors wrap at the capacity the ring was allocated with (C19-f).",
    "design_ref": "DESIGN.md §5 C19",
}

CLAIMS["C06"] = {
    "technique": "static analysis: ownership table over struct layouts with must-pass-through of each owning field's release in its deallocator (bypass only via the field's NULL test), classification of every pointer field of owner records, guardedness of every increment of a sub-32-bit reference counter, avoid-set reachability for partial-release call sites (setjmp recovery edges replaced by their raising origins), width check of every reference counter, leak-on-error typestate for values owned only by a C local across an unprotected LPC callback (fresh container results and hand-counted references; higher-order callees resolved at the call site), who-may-share check for arrays that are dismantled in place",
    "text": "Decides two structural necessary conditions of exact counting: every release function (sentence, pending call, function pointer, object, connection, array/class/mapping/object variables) releases each owning field on every path before giving the container up, and every pointer field of those records is classified owning/not-owning; "
            "every increment of a 16-bit reference counter is enumerated - strings saturate, eight counters do not (recorded findings keyed by declaration, so a new narrow counter or a de-saturated one is reported). "
            "The partial release free_called_call() (which keeps the argument array) is reached only after the array was handed over or found absent, on normal and recovery paths. That counts return to their previous values after arbitrary evaluation sequences is behavioural and not decided. Every reference counter is at least 32 bits wide (a saturating 16-bit counter is reported as a leak, a plain one as a premature free). A container result or hand-taken reference that only a C local owns is anchored, handed over or released before the function runs LPC code outside a catch barrier (callbacks reached only through master or snoop hooks are reported undecided). An array that is taken apart with free_empty_array() (items moved out, block released) has no second holder anywhere in the driver. Every free_node() site has released the node's key and value on the way; a release conditional on the value's tag covers strings and all counted types (C06-i).",
    "design_ref": "DESIGN.md §5 C06",
}

CLAIMS["C02"] = {
    "technique": "static analysis: growth-site rule over every realloc in the compiler units, per-iteration weighted longest-path in budgeted lexer copy loops, must-pass-through of state release in epilog, call-graph reachability of fatal() from compile_file (context-sensitive for comparator arguments), representation-invariant rule on the locals table, reset-completeness of lexer statics (post-dominating resets, drain loops, constant propagation to every return), dominance of an index test inside the loop for growing-index stores (with extent arithmetic where the array has a declared size), report-then-copy reachability for size tests that only call lexerror/yyerror, constant-truth check of assignment conditions, guard dominance excluding -1 for signed division of source-text values, lock-step index-space check of rebased frame pointers, units-of-measure propagation (bytes vs element index) over the memory blocks, per-entry count pairing in the locals table, stale-pointer typestate for pointers into a memory block across calls that can grow it (growth summaries over the call graph), reset-completeness scan of the compiler's file-scope state against a reviewed table, path completeness of the identifier clean-up",
    "text": "Decides structural necessary conditions of compiler safety and reusability for all source texts: every table reallocation really grows (or is an exact fit); lexer copy loops that spend a space budget never store more bytes than they charge and SAVEC stores are bounded; "
            "epilog releases lexer, scratchpad and locals on every return; errors are counted and block object creation; fatal() is reachable from compilation only via reviewed internal-inconsistency sites; "
            "whoever drops a local's sem_value removes it from the live range. every lexer static written while yylex runs is reset per compilation, is a pure statistic, or is provably back at its initial value at each return of its only writer (two flags that leaked into the next file were found and fixed). The stuck re-entrancy flag after an escaping error is a recorded finding. Termination and full equality of the produced program with a fresh driver's (compiler-side state beyond the lexer) are not decided. Also decided for the lexer/preprocessor: an index that grows with the input is compared with a bound on every way into its store (and the bound fits the array's extent), a size test that only reports does not fall through into the copy it guards, no condition is an assignment of never-null pointer arithmetic, and #if arithmetic and constant folding never divide a signed value by a source-chosen -1 (INT_MIN / -1 traps; found in the folding code, replayed and fixed). Every entry of the locals table owns one count of its identifier (a redeclared local took an efun's name away for all later compiles: found, replayed, fixed) and indexed pops stay inside the function's part of the table; byte counts and element indexes of the memory blocks are never mixed; a pointer into a table is not used after a call that may reallocate the table; every static of the compiler proper that a compilation writes is reset per compilation or is on the reviewed list with its reason (two real leaks found this way and fixed); free_unused_identifiers() resets its state on every path. Predefined macros are not changed by a compilation: entries are hidden or overwritten only where tested not to be predefined (C02-r).",
    "design_ref": "DESIGN.md §5 C02",
}

CLAIMS["C01"] = {
    "technique": "static analysis: clang's type-resolved format checker with injected format attributes over all units plus a literal-provenance rule, output-bound computation for every formatted write into a fixed char array, must-pass CHECK_TYPES analysis of the efun dispatch cases, stack-space check dominance for every value-stack push, saturating-length flow rule, LPC-integer index taint with range guards, stale-pointer typestate for mapping internals held across LPC callbacks, tag-domain abstract interpretation of every efun against the dispatcher's guarantees (argument slot tracking through sp arithmetic, per argument count), guard dominance excluding -1 for signed division of LPC numbers, positivity of V for every `x[V - K]` access, borrowed-value typestate for pointers into apply_ret_value (derived pointers, ownership idioms, callee summaries for lent parameters), boundary analysis of snprintf-family truncation tests, store-before-raise path rule for mapping node counts, natural-loop pairing of count pass and fill pass with path-set comparison",
    "text": "Decides structural necessary conditions of memory safety for all programs at once, per site: ~900 reporter calls have literal or provably driver-literal formats with well-formed conversions; every sprintf/strcpy into a fixed buffer has a computed bound (LPC-controlled numbers at full range) or is reported undecided; "
            "each F_EFUNn dispatch is behind one CHECK_TYPES per fixed argument; every sp increment is behind a space check or a pop (73 unguarded push sites are recorded findings, so a new one is reported); MSTR_SIZE never reaches a copy/allocation length without its USHRT_MAX fallback; "
            "subscripts and copy lengths derived from LPC integers are dominated by lower and upper bounds paired with the indexed container. mapping node/table pointers that stay live across an LPC callback belong to a mapping the callback cannot reach (private copy or proven single reference). Use-after-free in general, efun-internal pointer arithmetic, pc staying inside the bytecode are not decided. Every read of a pointer union member of an efun argument (213 efuns, per admissible argument count) happens under a tag set - from the dispatcher or from the efun's own tests - for which that member is a pointer (three efuns that used unchecked arguments as pointers were found, replayed and fixed); reads through slots the interpreter cannot resolve are counted, not claimed. Signed division/modulo of LPC integers is reached only with the divisor known not to be -1 (INT64_MIN / -1 killed the driver: found, replayed, fixed). Accesses of the form x[len - K] on script-supplied strings are reached only with len >= K (four under-reads fixed); pointers into apply_ret_value, and anything derived from them, are not used after a call that may store a new apply result, including through callees that make an apply of their own (one dangling save-file name in ed found and fixed). Where a loop counts, an allocation is sized by that count and a second loop over the same cursor fills it, every way round the fill loop is a way round the count loop or the fill loop is bounded by the count itself.",
    "design_ref": "DESIGN.md §5 C01",
}

NOT_APPLICABLE = {
    "C03": "Value semantics of compiled bytecode (results of arithmetic, indexing, assignment forms, control flow) quantify over run-time values; no clause of it is decidable from the shape of the code with the analyses built here. The one structural clause considered (operator/assignment-operator acceptance matrices agreeing) needs an exact tag-domain interpreter over eval_instruction that was not reached, so nothing is claimed rather than a weaker proxy (DESIGN.md §6, §12.2).",
    "C18": "Line/trace correctness is a value-level question about run-length tables (encode in the code generator, decode in find_line); no clause of it is visible in the shape of the code, so static analysis gives no verdict (DESIGN.md §6).",
}

PENDING_REASON = "not claimed"


def main():
    props = [json.loads(l) for l in open(os.path.join(HERE, "properties.jsonl"))]
    checks = []
    na = []
    for p in props:
        pid = p["id"]
        if pid in CLAIMS:
            c = CLAIMS[pid]
            checks.append({
                "property_id": pid,
                "quick_cmd": "./check %s --tier quick" % pid,
                "thorough_cmd": "./check %s --tier thorough" % pid,
                "evidence_file": "/verif/evidence/%s.json" % pid,
                "replay_cmd_template": "./check %s --replay {path}" % pid,
                "engine": "nlx+rules",
                "level_claimed": {"category": "other", "text": c["text"], "design_ref": c["design_ref"]},
                "level_note": TRUSTED,
                "technique": c["technique"],
            })
        else:
            na.append({"property_id": pid, "reason": NOT_APPLICABLE.get(pid, PENDING_REASON)})
    m = {
        "version": 1,
        "setup_cmd": "make -C /verif all",
        "hooks": {
            "guard": "TAEDLAR_NEOLITH_VERIF",
            "enable": "no source hooks are needed: the analysis command lines pass -DTAEDLAR_NEOLITH_VERIF (nothing in /repo tests it) and parse /repo's working tree with clang 14",
            "baseline_off_cmd": "/verif/tools/baseline_off.sh",
            "source_commits": [],
            "add_only": True,
        },
        "engines": [{"name": "nlx+rules", "path": "engine/", "serves_properties": sorted(CLAIMS),
                     "kind_free_text": "libTooling fact extractor (clang 14 CFG + resolved expression trees, one JSON-lines file per unit) and a Python rule engine (dominators, avoid-set reachability, forward dataflow, call graph)"}],
        "checks": checks,
        "not_applicable": na,
        "notes": "Exit codes: 0 held (KNOWN-FINDING lines for entries of known_findings.json), 1 new violation (VIOLATION line), 2 analysis broken (anchor vanished / instance count below frozen minimum / unit does not parse). fix: commits in /repo are recorded under 'fixed' in known_findings.json.",
    }
    json.dump(m, open(os.path.join(HERE, "MANIFEST.json"), "w"), indent=1)
    print("MANIFEST.json: %d checks, %d not_applicable" % (len(checks), len(na)))


if __name__ == "__main__":
    main()
