#!/bin/sh
# Create a witness from the reverse of a /repo commit.  usage: tools/mkrev.sh <Cxx> <sha> <rule> <expect-regex-tail> [-- pathspec...]
cd "$(dirname "$0")/.."
pid=$1; sha=$2; rule=$3; ex=$4; shift 4
[ "$1" = "--" ] && shift
{ echo "# rule: $rule"; echo "# what: revert of $sha ($(git -C /repo show -s --format=%s $sha | cut -c6-90))"; echo "# expect: $rule\\] $ex"; git -C /repo show -R $sha "$@" | sed -n '/^diff --git/,$p'; } > engine/witnesses/$pid/revert-$sha.patch
echo "wrote engine/witnesses/$pid/revert-$sha.patch"
