#!/usr/bin/env python3
"""Create a witness patch by string substitution on a /repo file.
usage: mkw.py <Cxx> <name> <repo-relative file> <rule> <what> <expect-regex> <<< 'OLD\n=====\nNEW'   (count=1 required)"""
import difflib
import os
import sys

pid, name, relf, rule, what, expect = sys.argv[1:7]
spec = sys.stdin.read()
src = open(os.path.join("/repo", relf)).read()
dst = src
for part in spec.split("\n#####\n"):
    old, new = part.split("\n=====\n")
    old = old.strip("\n")
    new = new.strip("\n")
    if dst.count(old) != 1:
        sys.exit("pattern occurs %d times in %s: %r" % (dst.count(old), relf, old[:60]))
    dst = dst.replace(old, new)
diff = "".join(difflib.unified_diff(src.splitlines(True), dst.splitlines(True), "a/" + relf, "b/" + relf))
d = os.path.join(os.path.dirname(os.path.dirname(os.path.abspath(__file__))), "engine", "witnesses", pid)
os.makedirs(d, exist_ok=True)
with open(os.path.join(d, name + ".patch"), "w") as fh:
    fh.write("# rule: %s\n# what: %s\n# expect: %s\n" % (rule, what, expect))
    fh.write(diff)
print("wrote", os.path.join(d, name + ".patch"))
