#!/bin/sh
# For each "fixed" entry of known_findings.json: revert that commit transiently in /repo's working tree, run the
# property's quick check and report whether some rule fires.  /repo is restored after each probe.
# usage: tools/revert_probe.sh [Cxx ...]
cd "$(dirname "$0")/.."
[ -z "$(git -C /repo status --porcelain --untracked-files=no)" ] || { echo "/repo working tree not clean"; exit 2; }
python3 - "$@" <<'PY' > /tmp/revert_probe.list
import json, sys
want = set(sys.argv[1:])
for e in json.load(open("known_findings.json"))["fixed"]:
    if want and e["property"] not in want:
        continue
    print(e["property"], e["commit"])
PY
while read pid sha; do
  if ! git -C /repo show -R "$sha" -- . ':!docs' ':!*.md' | git -C /repo apply --check 2>/dev/null; then
    echo "$pid $sha CONFLICT (later commits touch the same lines)"; continue
  fi
  git -C /repo show -R "$sha" -- . ':!docs' ':!*.md' | git -C /repo apply
  out=$(./check "$pid" --tier quick 2>&1)
  rc=$?
  fired=$(printf '%s\n' "$out" | grep -o "\[$pid-[a-z]*\] [^ ]*" | sort -u | head -3 | tr '\n' ' ')
  git -C /repo checkout -- . 
  echo "$pid $sha rc=$rc $fired| $(git -C /repo show -s --format=%s "$sha" | cut -c1-90)"
done < /tmp/revert_probe.list
rm -f /tmp/revert_probe.list
