#!/usr/bin/env python3
"""For each "fixed" entry of known_findings.json: apply the reverse of that /repo commit to a scratch copy, run the
property's quick check and - when that stays silent - every other check.  Shows which repaired defects no rule
would report if they came back.  /repo is never touched.   usage: tools/revert_probe2.py [-j N] [Cxx ...]"""
import json, os, shutil, subprocess, sys, tempfile
from concurrent.futures import ThreadPoolExecutor

VERIF = os.path.dirname(os.path.dirname(os.path.abspath(__file__)))
PIDS = ["C01", "C02", "C04", "C05", "C06", "C07", "C08", "C09", "C10", "C11", "C12", "C13", "C14", "C15", "C16", "C17", "C19", "C20"]


def run_check(pid, env):
    r = subprocess.run([sys.executable, os.path.join(VERIF, "check"), pid, "--tier", "quick"], env=env, stdout=subprocess.PIPE, stderr=subprocess.STDOUT, text=True)
    fired = sorted({l.split("]")[0].split("[")[-1] + " " + l.split("] ")[1].split(" ")[0] for l in r.stdout.splitlines() if l.startswith("  ") and "] " in l and "[C" in l})[:3]
    return r.returncode, fired


def probe(item):
    pid, sha = item
    subj = subprocess.run(["git", "-C", "/repo", "show", "-s", "--format=%s", sha], stdout=subprocess.PIPE, text=True).stdout.strip()[:90]
    rev = subprocess.run(["git", "-C", "/repo", "show", "-R", sha, "--", ".", ":!docs", ":!*.md"], stdout=subprocess.PIPE, text=True).stdout
    tmp = tempfile.mkdtemp(prefix="nlxr-")
    try:
        scratch = os.path.join(tmp, "repo")
        subprocess.run(["rsync", "-a", "--exclude", "_build", "--exclude", ".git", "/repo/", scratch + "/"], check=True)
        r = subprocess.run(["patch", "-p1", "--no-backup-if-mismatch", "-s", "-F0"], cwd=scratch, input=rev, stdout=subprocess.PIPE, stderr=subprocess.STDOUT, text=True)
        if r.returncode != 0:
            return "%s %s CONFLICT | %s" % (pid, sha, subj)
        env = dict(os.environ)
        env.update({"NEOLITH_REPO": scratch, "NLX_CACHE": os.path.join(tmp, "cache"), "VERIF_EVIDENCE_DIR": os.path.join(tmp, "ev"), "VERIF_TIER": "quick",
                    "NLX_BIN": os.path.join(VERIF, ".cache", "bin", "nlx")})
        rc, fired = run_check(pid, env)
        if rc == 1:
            return "%s %s caught %s | %s" % (pid, sha, "; ".join(fired), subj)
        others = []
        for q in PIDS:
            if q == pid:
                continue
            rc2, f2 = run_check(q, env)
            if rc2 != 0:
                others.append("%s(rc=%d) %s" % (q, rc2, "; ".join(f2)))
        if others:
            return "%s %s caught-elsewhere rc=%d %s | %s" % (pid, sha, rc, " ".join(others), subj)
        return "%s %s SILENT rc=%d | %s" % (pid, sha, rc, subj)
    finally:
        shutil.rmtree(tmp, ignore_errors=True)


def main():
    args = sys.argv[1:]
    jobs = 8
    if "-j" in args:
        i = args.index("-j")
        jobs = int(args[i + 1])
        del args[i:i + 2]
    want = set(args)
    items = []
    seen = set()
    for e in json.load(open(os.path.join(VERIF, "known_findings.json")))["fixed"]:
        if want and e["property"] not in want:
            continue
        k = (e["property"], e["commit"])
        if k not in seen:
            seen.add(k)
            items.append(k)
    with ThreadPoolExecutor(max_workers=jobs) as ex:
        for line in ex.map(probe, items):
            print(line, flush=True)


if __name__ == "__main__":
    main()
