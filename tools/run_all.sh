#!/bin/bash
# runs every claimed check (quick tier by default) and prints one summary line each
tier=${1:-quick}
cd /verif
for id in $(python3 -c "import json;print(' '.join(c['property_id'] for c in json.load(open('MANIFEST.json'))['checks']))"); do
  out=$(./check $id --tier $tier 2>&1); rc=$?
  echo "$id rc=$rc $(echo "$out" | grep "^$id \[" )"
  [ $rc != 0 ] && echo "$out" | grep -v "^   " | head -8
done
