#!/usr/bin/env python3
"""Prints the prompt given to a seeding sub-agent for property <Cxx> (property text only; nothing from /verif's machinery)."""
import json, sys
pid = sys.argv[1]
for l in open('/verif/properties.jsonl'):
    p = json.loads(l)
    if p['id'] == pid:
        break
d = "/tmp/seed-" + pid
print(f"""You are working on taedlar/neolith, an LPMud game driver written in C (fork of MudOS): LPC lexer/preprocessor, compiler to bytecode, stack-machine interpreter, efuns, network backend. You have your own scratch git worktree of it at {d} . Work ONLY inside {d} . Never read, write or run anything under /repo or /verif (they are off limits), and do not commit.

Build and test (offline; everything needed is installed):
  cmake -G Ninja -B {d}/_build -S {d} -DCMAKE_BUILD_TYPE=RelWithDebInfo && cmake --build {d}/_build
  ctest --test-dir {d}/_build -j8 --timeout 900
The unit tests are GoogleTest programs under {d}/tests (see tests/test_lpc_interpreter, tests/test_efuns, tests/test_backend ... for how LPC snippets are compiled and run in-process with load_object(name, pre_text), and examples/ for a sample mudlib used by tests).

This is a semantic property the code base is supposed to satisfy:

  {p['id']} — {p['title']}
  {p['statement']}
  (quantified over: {p['quantifier']['text']})

Your task: write ONE realistic source change to the driver (the kind of thing a maintainer could plausibly commit: a refactoring, an optimisation, a 'simplification', a fix that over-reaches, an off-by-one, a reordered statement, a dropped check on one path) that BREAKS this property, while the tree still compiles and the existing test suite still passes completely. The breakage must need something specific to manifest - a particular interleaving, an error/fault at a particular point, a multi-step sequence of operations, an unusual input, or two cooperating sites that each look fine alone - not something ordinary use or the existing tests would expose at once. Keep the change small (a few lines to a few dozen), in the driver sources (src/ or lib/), not in tests or build files.

Then write a demonstration that shows the breakage: preferably a new GoogleTest case or small C/C++ program linked against the driver libraries the way the existing tests are (you may add a test directory or extend an existing test source for the demo only), or a precise scripted scenario if a runnable demo is truly infeasible. The demonstration must FAIL (or show the wrong behaviour) with your change and PASS without it; verify both yourself (use `git stash`/`git diff` to toggle the source change while keeping the demo).

Deliverables, all under {d}/SEED/ :
  patch.diff   - `git diff` of the driver source change ONLY (no demo/test files in it); must apply with `git apply` to a clean checkout
  demo/        - the demonstration files plus a run.sh that builds and runs it (exit 0 = property holds, non-zero = broken), and demo.diff if the demo is a modification of existing test files
  NOTES.md     - which part of the property it breaks, what is needed for it to manifest, exactly what you ran and what you observed (existing suite with the change: pass count; demo with and without the change)

Before finishing: confirm that with patch.diff applied the full existing ctest suite passes (report the counts), and that the demo fails with it and passes without it. Final answer: a short summary of the change, the files touched, and the observed results.""")
