#!/bin/bash
# usage: tools/seed_round.sh Cxx...   — creates the scratch worktree and the prompt (with the ideas already used) for each property
cd "$(dirname "$0")/.."
for p in "$@"; do
  git -C /repo worktree add --detach /tmp/seed-$p main >/dev/null 2>&1
  python3 tools/seed_prompt.py $p > /tmp/prompt-$p.txt
  python3 - $p <<'PY'
import json,sys,os,glob
p=sys.argv[1]
ideas=[]
for f in sorted(glob.glob("/verif/seeded/%s*/meta.json"%p)):
    ideas.append(json.load(open(f))["breaks"][:230])
extra="\n\nThese ideas have been used already for this property by earlier rounds; pick something DIFFERENT (a different function, a different clause of the property, a different mechanism):\n"+"\n".join("  - "+i for i in ideas)+"\n\nPrefer a change that sits in code far away from the obvious central function of the property (a helper, a sibling path, an error path, an initialisation, a resize, a rarely used efun or option), or that splits the breakage over two sites that each look fine alone. Do not use `git stash` (the stash is shared with other worktrees): toggle your change with `git diff > /tmp/x.diff; git apply -R /tmp/x.diff`.\n"
open("/tmp/prompt-%s.txt"%p,"a").write(extra)
PY
done
git -C /repo worktree list | wc -l
