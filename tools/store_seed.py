#!/usr/bin/env python3
"""store_seed.py <Cxx> <round> <caught_by rule text> <expect regex | ''> <breaks> <needs> <missed_before:0|1>
Confirms /tmp/seed<round>-<Cxx> (tools/confirm_seed.sh), writes seeded/<Cxx>-<round>/meta.json and, when an expect
regex is given, a witness made from the seed patch."""
import json, os, subprocess, sys
pid, rnd, caught, expect, breaks, needs, missed = sys.argv[1:8]
store = "%s-%s" % (pid, rnd)
wt = "/tmp/seed%s-%s" % (rnd, pid)
log = "/tmp/confirm-%s.log" % store
if not os.path.exists("/verif/seeded/%s/patch.diff" % store):
    subprocess.run(["/verif/tools/confirm_seed.sh", pid, wt, store])
res = [l.strip() for l in open(log) if l.startswith("RESULT:")] if os.path.exists(log) else []
if not os.path.exists("/verif/seeded/%s/patch.diff" % store):
    print("NOT CONFIRMED", res)
    sys.exit(1)
meta = {"property": pid, "round": int(rnd), "breaks": breaks, "needs": needs, "caught_by": [caught] if caught else [], "missed_before_strengthening": missed == "1",
        "ran": ["tools/confirm_seed.sh %s %s %s: worktree at /repo HEAD, git apply patch.diff, cmake --build, ctest -j8 (115/115 passed with the patch), demo/run.sh non-zero with the patch and 0 without it" % (pid, wt, store),
                "tools/check_seeds.sh %s" % store],
        "result_log": res}
json.dump(meta, open("/verif/seeded/%s/meta.json" % store, "w"), indent=1)
if expect:
    rule = caught.split(" ")[0]
    wdir = "/verif/engine/witnesses/%s" % pid
    os.makedirs(wdir, exist_ok=True)
    body = open("/verif/seeded/%s/patch.diff" % store).read()
    body = body[body.index("diff --git"):]
    open("%s/seed%s-%s.patch" % (wdir, rnd, pid.lower()), "w").write("# rule: %s\n# what: seeded change %s: %s\n# expect: %s\n%s" % (rule, store, breaks[:100].replace("\n", " "), expect, body))
print("stored", store, res[-1:] )
