#!/usr/bin/env python3
"""Runs one property's quick check against a scratch copy of /repo with a patch applied (never touches /repo).
usage: tools/try_patch.py <Cxx> <patch> [extra check args]"""
import os, shutil, subprocess, sys, tempfile
VERIF = os.path.dirname(os.path.dirname(os.path.abspath(__file__)))
pid, patch = sys.argv[1], os.path.abspath(sys.argv[2])
tmp = tempfile.mkdtemp(prefix="nlxt-")
try:
    scratch = os.path.join(tmp, "repo")
    subprocess.run(["rsync", "-a", "--exclude", "_build", "--exclude", ".git", "/repo/", scratch + "/"], check=True)
    r = subprocess.run(["patch", "-p1", "--no-backup-if-mismatch", "-s", "-i", patch], cwd=scratch)
    if r.returncode != 0:
        sys.exit("patch does not apply")
    env = dict(os.environ)
    env.update({"NEOLITH_REPO": scratch, "NLX_CACHE": os.path.join(tmp, "cache"), "VERIF_EVIDENCE_DIR": os.path.join(tmp, "ev"), "VERIF_TIER": "quick",
                "NLX_BIN": os.path.join(VERIF, ".cache", "bin", "nlx")})
    r = subprocess.run([sys.executable, os.environ["TRY_SCRIPT"]], env=env) if os.environ.get("TRY_SCRIPT") else subprocess.run([sys.executable, os.path.join(VERIF, "check"), pid] + sys.argv[3:], env=env)
    sys.exit(r.returncode)
finally:
    shutil.rmtree(tmp, ignore_errors=True)
